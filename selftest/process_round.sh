#!/bin/bash
# selftest/process_round.sh <dir-prefix e.g. /tmp/seed5> <offset for C01-C10,C18,C19> <offset for library ids> <id>...
# confirms each delivered seed with seed.py (quick tier only) and prints one line per seed
pre=$1; off_a=$2; off_b=$3; shift 3
cd /verif
for id in "$@"; do
  case $id in C11|C12|C13|C14|C15|C16|C17|C20) off=$off_b;; *) off=$off_a;; esac
  for k in 1 2; do
    [ -f $pre-$id/$k/patch.diff ] || { echo "$id/$k: not delivered"; continue; }
    out=$(python3 selftest/seed.py $id $pre-$id/$k --keep-as $id-$((k+off)) --tiers quick 2>&1)
    echo "$id/$k -> $id-$((k+off)): $(echo "$out" | grep -E 'demo with|kept as|NOT CONF|PATCH' | tr '\n' ' ' | cut -c1-200) $(echo "$out" | grep -m1 VIOLATION | sed 's/.*replays\///')"
  done
done
