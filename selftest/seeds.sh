#!/usr/bin/env bash
# selftest/seeds.sh [tier]   applies every seeded defect of /verif/seeded to /repo in turn, runs the
# property's check (default quick) and expects exit 1; undoes the patch straight afterwards.
# SEEDS_ONLY=<regex> restricts the run to the seeds whose directory name matches.
tier="${1:-quick}"
cd /repo || exit 2
git diff --quiet || { echo "/repo is dirty"; exit 2; }
ok=0; bad=0
for d in /verif/seeded/*/; do
  n=$(basename "$d"); id=${n%%-*}
  if [ -n "$SEEDS_ONLY" ] && ! [[ "$n" =~ $SEEDS_ONLY ]]; then continue; fi
  other=$(jq -r '.detected_by_check_of // empty' "$d/meta.json" 2>/dev/null); [ -n "$other" ] && id=$other
  if [ -n "$(jq -r '.not_flagged_on_purpose // empty' "$d/meta.json" 2>/dev/null)" ]; then echo "$n: skipped (deliberately not flagged, see meta.json)"; continue; fi
  if [ -n "$(jq -r '.superseded_by_fix // empty' "$d/meta.json" 2>/dev/null)" ]; then echo "$n: skipped (no longer breaks the property since a repair, see meta.json)"; continue; fi
  if ! git apply "$d/patch.diff" 2>/dev/null; then echo "$n: PATCH DOES NOT APPLY"; bad=$((bad+1)); continue; fi
  out=$(/verif/bin/check "$id" --tier "$tier" 2>&1); code=$?
  git checkout -- . ; git clean -fdq -e target
  if [ $code -eq 1 ]; then ok=$((ok+1)); echo "$(date +%H:%M:%S) $n: detected ($(echo "$out" | grep -m1 '^VIOLATION' | sed 's/.*replays\///'))";
  else bad=$((bad+1)); echo "$n: NOT DETECTED (exit $code) $(echo "$out" | grep -E '^(OK|MACHINERY)' | head -2 | cut -c1-200)"; fi
done
echo "seeds detected: $ok, missed or broken: $bad"
