#!/usr/bin/env python3
"""selftest/seed.py <property id> <seed dir> [--keep-as <name>] [--tiers quick,thorough]

Independently confirms a seeded defect delivered by a sub-agent (patch.diff + demo.rs + demo.txt):
  1. in a scratch worktree of /repo (outside /repo and /verif): the patch applies, the workspace
     test suite still passes with it, the demonstration fails with it and passes without it;
  2. applies the patch to /repo, runs /verif/bin/check <id> (quick, then thorough if quick is
     silent), and undoes it straight afterwards;
  3. records everything as /verif/seeded/<name>/{patch.diff, demo.rs, demo.txt, notes.md, meta.json}.
"""
import json, os, re, shutil, subprocess, sys, time

def sh(cmd, cwd=None, timeout=3600):
    p = subprocess.run(cmd, shell=True, cwd=cwd, stdout=subprocess.PIPE, stderr=subprocess.STDOUT, text=True, timeout=timeout)
    return p.returncode, p.stdout

def main():
    pid, sdir = sys.argv[1], sys.argv[2].rstrip('/')
    name = None
    tiers = ['quick', 'thorough']
    note = None
    check_id = None
    args = sys.argv[3:]
    while args:
        a = args.pop(0)
        if a == '--keep-as': name = args.pop(0)
        elif a == '--tiers': tiers = args.pop(0).split(',')
        elif a == '--note': note = args.pop(0)
        elif a == '--check-id': check_id = args.pop(0)
    name = name or f"{pid}-{os.path.basename(sdir)}"
    demo_txt = open(f"{sdir}/demo.txt").read()
    m = re.search(r'([\w\-]+/tests/[\w\-]+\.rs)', demo_txt)
    dest = m.group(1)
    m = re.search(r'cargo test[^\n]*', demo_txt)
    cmd = m.group(0).strip()
    if ' -- ' in cmd:
        head, tail = cmd.split(' -- ', 1)
        targs = [a for a in tail.split() if a != '--nocapture']
        cmd = head + (' -- ' + ' '.join(targs) if targs else '')
    wt = '/tmp/wt-verify'
    meta = {'property': pid, 'source': 'independent sub-agent given only the property text and a scratch worktree', 'demo_path': dest, 'demo_cmd': cmd, 'ran': []}
    if not os.path.isdir(wt):
        rc, out = sh(f"git -C /repo worktree add -q --detach {wt} HEAD")
        assert rc == 0, out
    sh("git checkout -q --detach && git reset -q --hard && git clean -fdq -e target", cwd=wt)
    head = sh("git -C /repo rev-parse HEAD")[1].strip()
    sh(f"git checkout -q --detach {head}", cwd=wt)
    rc, out = sh(f"git apply {sdir}/patch.diff", cwd=wt)
    if rc != 0:
        print("PATCH DOES NOT APPLY:\n" + out); return 3
    t0 = time.time()
    rc, out = sh("cargo test --workspace --no-fail-fast --offline 2>&1 | grep -E '^test result|FAILED|failed|^error'", cwd=wt)
    results = [l for l in out.splitlines() if l.startswith('test result')]
    failed = [l for l in out.splitlines() if ('FAILED' in l or 'failed' in l or l.startswith('error')) and not l.startswith('test result: ok')]
    passed = sum(int(re.search(r'(\d+) passed', l).group(1)) for l in results)
    suite_ok = len(results) > 20 and not failed
    meta['ran'].append({'cmd': 'cargo test --workspace --no-fail-fast --offline (patch applied, scratch worktree)', 'suites': len(results), 'tests_passed': passed, 'failures': failed, 'wall_s': round(time.time() - t0)})
    print(f"suite with patch: {len(results)} suites, {passed} passed, failures={failed}")
    os.makedirs(os.path.dirname(f"{wt}/{dest}"), exist_ok=True)
    shutil.copy(f"{sdir}/demo.rs", f"{wt}/{dest}")
    rc_with, out_with = sh(cmd + " 2>&1 | tail -15", cwd=wt)
    demo_fails_with = 'FAILED' in out_with or 'panicked' in out_with
    sh(f"git apply -R {sdir}/patch.diff", cwd=wt)
    rc_wo, out_wo = sh(cmd + " 2>&1 | tail -8", cwd=wt)
    demo_passes_without = 'test result: ok' in out_wo and 'FAILED' not in out_wo
    meta['ran'].append({'cmd': cmd + ' (patch applied)', 'demo_fails': demo_fails_with})
    meta['ran'].append({'cmd': cmd + ' (patch reverted)', 'demo_passes': demo_passes_without})
    print(f"demo with patch fails: {demo_fails_with}; without patch passes: {demo_passes_without}")
    sh("git reset -q --hard && git clean -fdq -e target", cwd=wt)
    confirmed = suite_ok and demo_fails_with and demo_passes_without
    meta['confirmed'] = confirmed
    # ---- our checks against it
    rc, out = sh("git diff --quiet", cwd='/repo')
    assert rc == 0, "/repo is dirty"
    rc, out = sh(f"git apply {sdir}/patch.diff", cwd='/repo')
    detected_by = None
    try:
        if rc != 0:
            print("patch does not apply to /repo:", out)
        else:
            for tier in tiers:
                t0 = time.time()
                cid = check_id or pid
                rc, out = sh(f"bin/check {cid} --tier {tier}", cwd='/verif')
                lines = [l for l in out.splitlines() if l.startswith(('VIOLATION', '  cause', 'KNOWN', 'OK', 'FAILED', 'MACHINERY'))]
                meta['ran'].append({'cmd': f'bin/check {cid} --tier {tier} (patch applied to /repo)', 'exit': rc, 'wall_s': round(time.time() - t0, 1), 'output': lines[:8]})
                print(f"check {tier}: exit {rc}")
                for l in lines[:6]: print("   ", l[:220])
                if rc == 1:
                    detected_by = tier
                    break
    finally:
        sh("git checkout -- . && git clean -fdq -e target", cwd='/repo')
    meta['detected_by'] = detected_by
    if check_id and check_id != pid:
        meta['detected_by_check_of'] = check_id
    notes = open(f"{sdir}/notes.md").read() if os.path.exists(f"{sdir}/notes.md") else ''
    m = re.search(r'(?is)(needs|what it takes|trigger|manifest)[^\n]*\n?(.{0,600})', notes)
    meta['needs_to_manifest'] = (m.group(0)[:700] if m else notes[:700])
    if confirmed:
        out_dir = f"/verif/seeded/{name}"
        os.makedirs(out_dir, exist_ok=True)
        for f in ['patch.diff', 'demo.rs', 'demo.txt', 'notes.md']:
            if os.path.exists(f"{sdir}/{f}"): shutil.copy(f"{sdir}/{f}", f"{out_dir}/{f}")
        # keep what earlier runs of the checks said about this change (e.g. "missed", before a
        # check was strengthened)
        history = []
        if os.path.exists(f"{out_dir}/meta.json"):
            old = json.load(open(f"{out_dir}/meta.json"))
            history = old.get('history', [])
            if old.get('detected_by') != detected_by:
                history.append({'earlier_result': 'missed by quick and thorough' if old.get('detected_by') is None else f"detected by {old.get('detected_by')}", 'checks_run': [r for r in old.get('ran', []) if 'bin/check' in r.get('cmd', '')]})
        if history: meta['history'] = history
        if note: meta['strengthening'] = note
        elif os.path.exists(f"{out_dir}/meta.json") and 'strengthening' in json.load(open(f"{out_dir}/meta.json")):
            meta['strengthening'] = json.load(open(f"{out_dir}/meta.json"))['strengthening']
        json.dump(meta, open(f"{out_dir}/meta.json", 'w'), indent=1)
        print(f"kept as {out_dir}; detected_by={detected_by}")
    else:
        print("NOT CONFIRMED; not kept")
    return 0

sys.exit(main())
