#!/bin/bash
# runs inside a vp snapshot: build against the /repo snapshot, then every thorough tier
sed -i "s#\"/repo/#\"$VP_RUN_REPO/#g" harness/Cargo.toml harness/*/Cargo.toml
grep -c "$VP_RUN_REPO" harness/Cargo.toml
# THOROUGH_ONLY="C01 C05" restricts the run; THOROUGH_OPTS="--opt wallcap=420" is passed to every check
for p in ${THOROUGH_ONLY:-C08 C04 C03 C05 C06 C01 C02 C07 C19 C18 C09 C10 C11 C12 C13 C14 C15 C16 C17 C20}; do
  s=$(date +%s)
  out=$(bin/check $p --tier thorough ${THOROUGH_OPTS:-} 2>&1); code=$?
  echo "=== $p exit=$code $(( $(date +%s) - s ))s"
  echo "$out" | grep -E "^(VIOLATION|  cause|OK|FAILED|MACHINERY|KEY-WARNING|KNOWN)" | cut -c1-600 | head -12
  if echo "$out" | grep -q "KEY-WARNING"; then echo "$out" | grep -A6 "KEY-WARNING" | cut -c1-1200 | head -30; fi
done
echo ALL-DONE
