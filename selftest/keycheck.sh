#!/usr/bin/env bash
# selftest/keycheck.sh [every]   key self-test of the srvmc state key (DESIGN §14 / §15.2): for every
# <every>-th transition that reaches an already known state by a different history, all successors of
# both histories are compared; a difference means the key is too coarse (exit 2 from the engine).
every="${1:-3}"
cd /verif/harness && cargo build --release --offline -p srvmc >/dev/null 2>&1 || exit 2
cd /verif
for p in C01 C02 C03 C04 C05 C06 C07 C08; do
  out=$(harness/target/release/srvmc $p --opt keycheck=$every --opt wallcap=3000 2>&1); code=$?
  echo "$p exit=$code $(echo "$out" | grep -E '^(OK|FAILED|MACHINERY)' | head -3 | cut -c1-400)"
  python3 -c "
import json; e=json.load(open('/verif/evidence/$p.json'))
print('   key-differential checks:', sum(c['key_differential_checks'] for c in e['coverage']['configs']))"
done
