#!/usr/bin/env bash
# selftest/mutate.sh <Cxx> <file under /repo> <python-regex> <replacement>   (own detection demos, DESIGN §12)
# Applies one textual mutation to /repo, runs the quick check, prints its verdict, reverts.
id="$1"; file="$2"; pat="$3"; rep="$4"
cd /repo || exit 2
git diff --quiet || { echo "repo dirty"; exit 2; }
python3 - "$file" "$pat" "$rep" <<'PY'
import re,sys
f,p,r=sys.argv[1:4]
s=open(f).read()
n=re.subn(p,r,s,count=1,flags=re.S)
if n[1]!=1: print("PATTERN NOT FOUND"); sys.exit(3)
open(f,'w').write(n[0])
PY
[ $? -eq 0 ] || { git checkout -- .; exit 2; }
out=$(/verif/bin/check "$id" --tier quick 2>&1); code=$?
echo "$out" | grep -E "^(VIOLATION|  cause|KNOWN|OK|FAILED|MACHINERY)" | head -6
echo "mutant[$id $file] exit=$code"
git checkout -- .
