//! C10 Arbiter commands run FIFO, at most once, on the arbiter's own thread.
//!
//! Every command history up to the bound over {spawn_fn, spawn(future that yields once),
//! spawn(future that panics), spawn(future that never completes), stop} x every way of cutting
//! it into batches (a gate task blocks the arbiter thread while a batch is queued, so the runner
//! sees exactly that batch in one poll) x issuing handle (owner / clone on another thread), on a
//! real thread arbiter and on the system arbiter. Sends are issued hand over hand, so the
//! channel order is the history order. `block_on` is checked on a fixed matrix.

use std::{
    sync::{
        atomic::{AtomicBool, Ordering},
        mpsc::{channel, Sender},
        Arc, Mutex,
    },
    thread::ThreadId,
    time::Duration,
};

use actix_rt::{Arbiter, ArbiterHandle, System};
use mcutil::{json, Args, Report, Value, VioBag, Violation};

#[derive(Clone, Copy, Debug, PartialEq, Eq)]
pub enum Cmd {
    F,
    A,
    P,
    N,
    S,
}

const CMDS: [Cmd; 5] = [Cmd::F, Cmd::A, Cmd::P, Cmd::N, Cmd::S];

#[derive(Clone, Copy, Debug, PartialEq, Eq)]
pub enum Via {
    Owner,
    Clone,
    Alternate,
    /// every command is sent by a task running on the arbiter's own thread, through
    /// `Arbiter::current()`
    Own,
    /// odd commands are sent by a task on the arbiter's own thread, even ones by another thread
    /// (hand over hand, so earlier commands are still queued when the own-thread send happens)
    OwnAlternate,
}

#[derive(Clone, Copy, Debug, PartialEq, Eq)]
enum Who {
    Harness,
    OtherThread,
    OwnThread,
}

fn who(via: Via, idx: usize, k: usize) -> Who {
    match via {
        Via::Owner => Who::Harness,
        Via::Clone => Who::OtherThread,
        Via::Alternate => if (idx + k) % 2 == 1 { Who::OtherThread } else { Who::Harness },
        Via::Own => Who::OwnThread,
        Via::OwnAlternate => if idx % 2 == 1 { Who::OwnThread } else { Who::OtherThread },
    }
}

#[derive(Clone, Copy, Debug, PartialEq, Eq)]
pub enum Subject {
    ThreadArbiter,
    SystemArbiter,
    /// the system arbiter of a `System` created on a thread that hosted another `System` before
    SecondSystemArbiter,
    /// `Arbiter::with_tokio_rt` handed a multi-threaded Tokio runtime (2 workers)
    MtArbiter,
}

#[derive(Clone, Debug)]
pub struct Case {
    subject: Subject,
    cmds: Vec<Cmd>,
    batches: Vec<usize>,
    via: Via,
}

fn case_json(c: &Case) -> Value {
    json!({"kind": "commands", "subject": format!("{:?}", c.subject), "cmds": c.cmds.iter().map(|c| format!("{:?}", c)).collect::<Vec<_>>(), "batches": c.batches, "via": format!("{:?}", c.via)})
}

fn case_from(v: &Value) -> Case {
    Case {
        subject: if v["subject"] == "SystemArbiter" { Subject::SystemArbiter } else if v["subject"] == "SecondSystemArbiter" { Subject::SecondSystemArbiter } else if v["subject"] == "MtArbiter" { Subject::MtArbiter } else { Subject::ThreadArbiter },
        cmds: v["cmds"].as_array().unwrap().iter().map(|c| match c.as_str().unwrap() { "F" => Cmd::F, "A" => Cmd::A, "P" => Cmd::P, "N" => Cmd::N, _ => Cmd::S }).collect(),
        batches: v["batches"].as_array().unwrap().iter().map(|b| b.as_u64().unwrap() as usize).collect(),
        via: match v["via"].as_str().unwrap() { "Owner" => Via::Owner, "Clone" => Via::Clone, "Own" => Via::Own, "OwnAlternate" => Via::OwnAlternate, _ => Via::Alternate },
    }
}

#[derive(Clone, Debug, PartialEq, Eq)]
enum LogEv {
    Start { idx: usize, thread: ThreadId, ctx_ok: bool },
    Finish { idx: usize },
    Sent { idx: usize, ok: bool },
    Joined,
    /// a never-ending task was dropped (the arbiter is being taken apart); what `spawn_fn` /
    /// `stop` on a handle of that arbiter returned at that moment
    Teardown { idx: usize, spawn_ok: bool, stop_ok: bool },
}

struct DropProbe {
    idx: usize,
    h: ArbiterHandle,
    log: Log,
}
impl Drop for DropProbe {
    fn drop(&mut self) {
        let spawn_ok = self.h.spawn_fn(|| {});
        let stop_ok = self.h.stop();
        if let Ok(mut l) = self.log.lock() {
            l.push(LogEv::Teardown { idx: self.idx, spawn_ok, stop_ok });
        }
    }
}

type Log = Arc<Mutex<Vec<LogEv>>>;

struct ExitFlag(Arc<AtomicBool>);
impl Drop for ExitFlag {
    fn drop(&mut self) {
        self.0.store(true, Ordering::SeqCst);
    }
}
thread_local! {
    static EXIT: std::cell::RefCell<Option<ExitFlag>> = const { std::cell::RefCell::new(None) };
}

fn start(log: &Log, idx: usize, sys_id: usize) {
    let ctx_ok = System::try_current().map_or(false, |s| s.id() == sys_id) && Arbiter::try_current().is_some();
    log.lock().unwrap().push(LogEv::Start { idx, thread: std::thread::current().id(), ctx_ok });
}

/// Sends command `idx` through `h`; returns what `spawn`/`stop` returned.
fn send(h: &ArbiterHandle, cmd: Cmd, idx: usize, log: &Log, sys_id: usize) -> bool {
    let l = log.clone();
    match cmd {
        Cmd::F => h.spawn_fn(move || start(&l, idx, sys_id)),
        Cmd::A => h.spawn(async move {
            start(&l, idx, sys_id);
            tokio::task::yield_now().await;
            l.lock().unwrap().push(LogEv::Finish { idx });
        }),
        Cmd::P => h.spawn(async move {
            start(&l, idx, sys_id);
            panic!("task panics (expected-by-harness)");
        }),
        Cmd::N => {
            let h2 = h.clone();
            h.spawn(async move {
                start(&l, idx, sys_id);
                let _probe = DropProbe { idx, h: h2, log: l.clone() };
                std::future::pending::<()>().await;
            })
        }
        Cmd::S => h.stop(),
    }
}

fn send_via(h: &ArbiterHandle, on_other_thread: bool, cmd: Cmd, idx: usize, log: &Log, sys_id: usize) {
    let ok = if on_other_thread {
        let (h2, l2) = (h.clone(), log.clone());
        std::thread::spawn(move || send(&h2, cmd, idx, &l2, sys_id)).join().unwrap()
    } else {
        send(h, cmd, idx, log, sys_id)
    };
    log.lock().unwrap().push(LogEv::Sent { idx, ok });
}

struct Observed {
    log: Vec<LogEv>,
    arbiter_thread: Option<ThreadId>,
    exit_flag_after_join: Option<bool>,
    fenced_upto: usize,
    first_stop: Option<usize>,
    notes: Vec<String>,
}

const FENCE_WAIT: Duration = Duration::from_secs(5);

enum Instr {
    Send(Cmd, usize),
}

fn run_thread_arbiter(c: &Case, multi_thread_rt: bool) -> Observed {
    let _runner = System::new();
    let sys_id = System::current().id();
    let log: Log = Arc::new(Mutex::new(vec![]));
    let arb = if multi_thread_rt {
        Arbiter::with_tokio_rt(|| tokio::runtime::Builder::new_multi_thread().worker_threads(2).enable_all().build().unwrap())
    } else {
        Arbiter::new()
    };
    let h = arb.handle();
    let mut notes = vec![];
    // probe: thread identity + exit flag
    let flag = Arc::new(AtomicBool::new(false));
    let (ptx, prx) = channel();
    {
        let flag = flag.clone();
        arb.spawn_fn(move || {
            EXIT.with(|e| *e.borrow_mut() = Some(ExitFlag(flag)));
            let _ = ptx.send(std::thread::current().id());
        });
    }
    let arbiter_thread = prx.recv_timeout(FENCE_WAIT).ok();
    let mut arb = Some(arb);
    let mut idx = 0usize;
    let mut first_stop: Option<usize> = None;
    let mut fenced_upto = 0usize;
    for bsize in &c.batches {
        let stopped = first_stop.is_some();
        // gate: block the arbiter thread while the batch is queued
        // the gate task also sends the commands that are to come from the arbiter's own thread
        let mut release: Option<Sender<Instr>> = None;
        let (ack_tx, ack_rx) = channel::<bool>();
        if !stopped {
            let (reached_tx, reached_rx) = channel::<()>();
            let (rel_tx, rel_rx) = channel::<Instr>();
            let l = log.clone();
            h.spawn_fn(move || {
                let _ = reached_tx.send(());
                while let Ok(Instr::Send(cmd, idx)) = rel_rx.recv_timeout(Duration::from_secs(20)) {
                    let ok = Arbiter::try_current().map_or(false, |me| send(&me, cmd, idx, &l, sys_id));
                    let _ = ack_tx.send(ok);
                }
            });
            if reached_rx.recv_timeout(FENCE_WAIT).is_err() {
                notes.push(format!("gate before command {idx} was not reached"));
            }
            release = Some(rel_tx);
        }
        let mut batch_has_stop = false;
        for k in 0..*bsize {
            let cmd = c.cmds[idx];
            match (who(c.via, idx, k), &release) {
                (Who::OwnThread, Some(gate)) => {
                    let _ = gate.send(Instr::Send(cmd, idx));
                    match ack_rx.recv_timeout(FENCE_WAIT) {
                        Ok(ok) => log.lock().unwrap().push(LogEv::Sent { idx, ok }),
                        Err(_) => notes.push(format!("the task on the arbiter thread did not send command {idx}")),
                    }
                }
                (w, _) => send_via(&h, w != Who::Harness || arb.is_none(), cmd, idx, &log, sys_id),
            }
            if cmd == Cmd::S && first_stop.is_none() {
                first_stop = Some(idx);
                batch_has_stop = true;
            }
            idx += 1;
        }
        // fence: a trailing task tells us the batch has been worked off (if the loop still runs)
        let (ftx, frx) = channel::<()>();
        let fence_sent = if first_stop.is_none() { h.spawn_fn(move || { let _ = ftx.send(()); }) } else { false };
        drop(release); // the gate task returns
        if fence_sent {
            if frx.recv_timeout(FENCE_WAIT).is_err() {
                notes.push(format!("fence after command {} never ran although no stop was sent", idx - 1));
            } else {
                fenced_upto = idx;
            }
        }
        if batch_has_stop {
            // the loop must end now: join, then the arbiter is gone
            if let Some(a) = arb.take() {
                let _ = a.join();
                log.lock().unwrap().push(LogEv::Joined);
            }
        }
    }
    let mut exit_flag_after_join = None;
    if let Some(a) = arb.take() {
        a.stop();
        let _ = a.join();
        log.lock().unwrap().push(LogEv::Joined);
    }
    exit_flag_after_join.get_or_insert(flag.load(Ordering::SeqCst));
    // once the arbiter is gone, spawn reports false - and what was handed to it never runs, on
    // no thread (this thread has a live System: nothing may be re-routed to its arbiter)
    let ran_anyway = Arc::new(AtomicBool::new(false));
    let (r1, r2) = (ran_anyway.clone(), ran_anyway.clone());
    let gone_ok = !h.spawn_fn(move || r1.store(true, Ordering::SeqCst))
        && !h.spawn(async move {
            r2.store(true, Ordering::SeqCst);
        })
        && !h.stop();
    if !gone_ok {
        notes.push("spawn/stop on a handle of a joined arbiter returned true".into());
    }
    _runner.block_on(async {
        for _ in 0..5 {
            tokio::task::yield_now().await;
        }
    });
    if ran_anyway.load(Ordering::SeqCst) {
        notes.push("a command handed to a joined arbiter (spawn returned false) ran anyway, on another arbiter".into());
    }
    std::thread::sleep(Duration::from_millis(0));
    let log = log.lock().unwrap().clone();
    Observed { log, arbiter_thread, exit_flag_after_join, fenced_upto, first_stop, notes }
}

fn run_system_arbiter(c: &Case, second_system: bool) -> Observed {
    if second_system {
        // this thread has hosted a System before (created, used once, gone)
        let old = System::new();
        old.block_on(async { tokio::task::yield_now().await });
        drop(old);
    }
    let runner = System::new();
    let sys = System::current();
    let sys_id = sys.id();
    let h = sys.arbiter().clone();
    let log: Log = Arc::new(Mutex::new(vec![]));
    let mut notes = vec![];
    let mut idx = 0usize;
    let mut first_stop: Option<usize> = None;
    let mut fenced_upto = 0;
    for bsize in &c.batches {
        if matches!(c.via, Via::Own | Via::OwnAlternate) {
            // the whole batch is sent from inside one task on the system thread; the commands of
            // the other thread are sent while that task waits for them
            let batch: Vec<(usize, Cmd, Who)> = (0..*bsize).map(|k| (idx + k, c.cmds[idx + k], who(c.via, idx + k, k))).collect();
            let (l, h2) = (log.clone(), h.clone());
            let sender = runner.runtime().spawn(async move {
                for (i, cmd, w) in batch {
                    match (w, Arbiter::try_current()) {
                        (Who::OwnThread, Some(me)) => {
                            let ok = send(&me, cmd, i, &l, sys_id);
                            l.lock().unwrap().push(LogEv::Sent { idx: i, ok });
                        }
                        _ => send_via(&h2, true, cmd, i, &l, sys_id),
                    }
                }
            });
            let _ = runner.block_on(sender);
            for _ in 0..*bsize {
                if c.cmds[idx] == Cmd::S && first_stop.is_none() {
                    first_stop = Some(idx);
                }
                idx += 1;
            }
        } else {
            for k in 0..*bsize {
                let cmd = c.cmds[idx];
                send_via(&h, who(c.via, idx, k) != Who::Harness, cmd, idx, &log, sys_id);
                if cmd == Cmd::S && first_stop.is_none() {
                    first_stop = Some(idx);
                }
                idx += 1;
            }
        }
        // the batch is worked off while the system thread runs its event loop for a while
        let (ftx, frx) = tokio::sync::oneshot::channel::<()>();
        let fence_sent = if first_stop.is_none() { h.spawn_fn(move || { let _ = ftx.send(()); }) } else { false };
        runner.block_on(async move {
            if fence_sent {
                let _ = tokio::time::timeout(FENCE_WAIT, frx).await;
            } else {
                for _ in 0..50 {
                    tokio::task::yield_now().await;
                }
            }
        });
        if fence_sent {
            fenced_upto = idx;
        }
    }
    if first_stop.is_some() {
        let gone_ok = !h.spawn_fn(|| {}) && !h.stop();
        if !gone_ok {
            notes.push("spawn/stop on the stopped system arbiter's handle returned true".into());
        }
    }
    // taking the system apart drops the tasks that never finished
    drop(runner);
    let log = log.lock().unwrap().clone();
    Observed { log, arbiter_thread: Some(std::thread::current().id()), exit_flag_after_join: None, fenced_upto, first_stop, notes }
}

fn check(c: &Case, o: &Observed) -> Option<(String, String)> {
    let bad = |sig: &str, msg: String| Some((format!("C10:{sig}"), msg));
    if let Some(n) = o.notes.first() {
        let sig = if n.contains("returned true") { "spawn-true-after-arbiter-gone" } else if n.contains("ran anyway") { "ran-after-arbiter-gone" } else { "arbiter-stuck" };
        return bad(sig, n.clone());
    }
    let starts: Vec<(usize, ThreadId, bool)> = o.log.iter().filter_map(|e| if let LogEv::Start { idx, thread, ctx_ok } = e { Some((*idx, *thread, *ctx_ok)) } else { None }).collect();
    // FIFO and at most once
    for w in starts.windows(2) {
        if w[1].0 == w[0].0 {
            return bad("ran-twice", format!("command {} started twice", w[0].0));
        }
        if w[1].0 < w[0].0 {
            return bad("not-fifo", format!("command {} ({:?}) started before command {} ({:?}) although it was sent later", w[0].0, c.cmds[w[0].0], w[1].0, c.cmds[w[1].0]));
        }
    }
    for (idx, th, ctx_ok) in &starts {
        if Some(*th) != o.arbiter_thread {
            return bad("wrong-thread", format!("command {idx} ran on {:?}, the arbiter's thread is {:?}", th, o.arbiter_thread));
        }
        if !ctx_ok {
            return bad("wrong-context", format!("command {idx}: System::current()/Arbiter::current() did not identify the arbiter's system"));
        }
        if let Some(s) = o.first_stop {
            if *idx > s {
                return bad("started-after-stop", format!("command {idx} ({:?}) was sent after stop (command {s}) and still started", c.cmds[*idx]));
            }
        }
    }
    // everything in batches that were fenced before any stop must have started
    for idx in 0..o.fenced_upto {
        if c.cmds[idx] != Cmd::S && !starts.iter().any(|s| s.0 == idx) {
            return bad("command-lost", format!("command {idx} ({:?}) never started although a later fence task ran", c.cmds[idx]));
        }
    }
    // A-type futures that started in a fenced batch followed by a later fenced batch finish exactly once
    let finishes: Vec<usize> = o.log.iter().filter_map(|e| if let LogEv::Finish { idx } = e { Some(*idx) } else { None }).collect();
    for f in &finishes {
        if finishes.iter().filter(|x| *x == f).count() > 1 {
            return bad("ran-twice", format!("future {f} completed twice"));
        }
    }
    // sends before the first stop report true
    for e in &o.log {
        if let LogEv::Sent { idx, ok } = e {
            if o.first_stop.map_or(true, |s| *idx <= s) && !ok {
                return bad("send-false-while-running", format!("sending command {idx} returned false although the arbiter had not been stopped"));
            }
        }
    }
    // once the loop has ended because of a stop, handles report false - also while the arbiter is
    // still being taken apart (a never-ending task is dropped then)
    let stopped = o.first_stop.is_some() || matches!(c.subject, Subject::ThreadArbiter | Subject::MtArbiter);
    if stopped {
        for e in &o.log {
            if let LogEv::Teardown { idx, spawn_ok, stop_ok } = e {
                if *spawn_ok || *stop_ok {
                    return bad("spawn-true-after-loop-end", format!("the arbiter had processed its stop and ended its loop; while it was being taken apart (task {idx} dropped) spawn_fn returned {spawn_ok} and stop returned {stop_ok} on a handle of it"));
                }
            }
        }
    }
    // join returns only after the loop has ended
    if let Some(jpos) = o.log.iter().position(|e| *e == LogEv::Joined) {
        if let Some(LogEv::Start { idx, .. }) = o.log[jpos..].iter().find(|e| matches!(e, LogEv::Start { .. })) {
            return bad("ran-after-join", format!("command {idx} started after join() had returned"));
        }
        if o.exit_flag_after_join == Some(false) {
            return bad("join-before-thread-end", "join() returned but the arbiter thread's thread-locals had not been destroyed".into());
        }
    }
    None
}

pub fn run_case(c: &Case) -> Result<Option<(String, String)>, String> {
    let c2 = c.clone();
    let o = crate::with_watchdog(crate::WATCHDOG * 3, move || match c2.subject {
        Subject::ThreadArbiter => run_thread_arbiter(&c2, false),
        Subject::MtArbiter => run_thread_arbiter(&c2, true),
        Subject::SystemArbiter => run_system_arbiter(&c2, false),
        Subject::SecondSystemArbiter => run_system_arbiter(&c2, true),
    });
    match o {
        Ok(o) => Ok(check(c, &o)),
        Err(e) => Ok(Some(("C10:deadlock-or-panic".into(), e))),
    }
}

// ---- block_on ----------------------------------------------------------------------------

fn block_on_matrix(bag: &mut VioBag) -> u64 {
    let mut n = 0;
    for yields in 0..=2usize {
        for local_tasks in 0..=2usize {
            for value in [0u64, 41, u64::MAX] {
                for which in 0..3 {
                    n += 1;
                    let r = crate::with_watchdog(crate::WATCHDOG, move || {
                        let counter = Arc::new(std::sync::atomic::AtomicUsize::new(0));
                        let c2 = counter.clone();
                        let fut = async move {
                            for _ in 0..local_tasks {
                                let c3 = c2.clone();
                                actix_rt::spawn(async move {
                                    c3.fetch_add(1, Ordering::SeqCst);
                                });
                            }
                            for _ in 0..yields {
                                tokio::task::yield_now().await;
                            }
                            value
                        };
                        let out = match which {
                            0 => actix_rt::Runtime::new().unwrap().block_on(fut),
                            1 => System::new().block_on(fut),
                            _ => {
                                let runner = System::new();
                                let o = runner.block_on(fut);
                                // the runner is reusable
                                let again = runner.block_on(async { 7u8 });
                                if again != 7 {
                                    return (u64::MAX - 1, 0);
                                }
                                o
                            }
                        };
                        (out, counter.load(Ordering::SeqCst))
                    });
                    let sig = "C10:block_on-output";
                    match r {
                        Ok((out, _ran)) if out == value => {}
                        Ok((out, _)) => bag.add(sig, || Violation { signature: sig.into(), summary: format!("block_on returned {out}, the future's output is {value} (variant {which}, {yields} yields, {local_tasks} local tasks)"), replay: json!({"kind": "block_on", "yields": yields, "local_tasks": local_tasks, "value": value, "which": which}) }),
                        Err(e) => bag.add("C10:block_on-stuck", || Violation { signature: "C10:block_on-stuck".into(), summary: e.clone(), replay: json!({"kind": "block_on", "yields": yields, "local_tasks": local_tasks, "value": value, "which": which}) }),
                    }
                }
            }
        }
    }
    n
}

fn enumerate(max_len: usize, full_cut_len: usize, mt_len: usize) -> Vec<Case> {
    let mut out = vec![];
    for len in 1..=max_len {
        let mut seqs: Vec<Vec<Cmd>> = vec![];
        mcutil::for_each_seq(5, len, |s| seqs.push(s.iter().map(|i| CMDS[*i]).collect()));
        for cmds in seqs {
            let cuts: Vec<Vec<usize>> = if len <= full_cut_len {
                mcutil::compositions(len)
            } else {
                // one batch, all separate, cut after every stop
                let mut v = vec![vec![len], vec![1; len]];
                let mut parts = vec![];
                let mut cur = 0;
                for c in &cmds {
                    cur += 1;
                    if *c == Cmd::S {
                        parts.push(cur);
                        cur = 0;
                    }
                }
                if cur > 0 {
                    parts.push(cur);
                }
                if !v.contains(&parts) {
                    v.push(parts);
                }
                v
            };
            for b in cuts {
                for via in [Via::Owner, Via::Clone, Via::Alternate, Via::Own, Via::OwnAlternate] {
                    out.push(Case { subject: Subject::ThreadArbiter, cmds: cmds.clone(), batches: b.clone(), via });
                }
                for via in [Via::Owner, Via::Clone, Via::Own, Via::OwnAlternate] {
                    out.push(Case { subject: Subject::SystemArbiter, cmds: cmds.clone(), batches: b.clone(), via });
                }
                if len <= mt_len {
                    for via in [Via::Owner, Via::Clone, Via::OwnAlternate] {
                        out.push(Case { subject: Subject::MtArbiter, cmds: cmds.clone(), batches: b.clone(), via });
                    }
                    for via in [Via::Owner, Via::Own, Via::OwnAlternate] {
                        out.push(Case { subject: Subject::SecondSystemArbiter, cmds: cmds.clone(), batches: b.clone(), via });
                    }
                }
            }
        }
    }
    out
}

/// A stop behind a backlog: k commands, the stop and one late command are queued in one batch
/// while the arbiter thread is busy (boundary sizes of per-poll budgets).
fn backlog_cases(max_k: usize) -> Vec<Case> {
    let mut ks: Vec<usize> = (0..=max_k.min(40)).collect();
    for k in [63usize, 64, 65, 127, 128, 129, 255, 256, 257] {
        if k <= max_k {
            ks.push(k);
        }
    }
    let mut out = vec![];
    // many commands queued *behind* the stop in the same batch: none of them may start
    for m in [1usize, 40, 127, 128, 129, 200, 255, 256, 257, 300, 513] {
        if m <= max_k.max(300) * 2 {
            let mut cmds = vec![Cmd::S];
            cmds.extend(std::iter::repeat(Cmd::F).take(m));
            for subject in [Subject::ThreadArbiter, Subject::SystemArbiter, Subject::MtArbiter] {
                out.push(Case { subject, cmds: cmds.clone(), batches: vec![m + 1], via: Via::Owner });
            }
        }
    }
    for k in ks {
        for filler in [Cmd::F, Cmd::A] {
            let mut cmds = vec![filler; k];
            cmds.push(Cmd::S);
            cmds.push(Cmd::F);
            for subject in [Subject::ThreadArbiter, Subject::MtArbiter] {
                out.push(Case { subject, cmds: cmds.clone(), batches: vec![k + 2], via: Via::Owner });
            }
        }
    }
    out
}

pub fn run(args: &Args) -> i32 {
    let mut rep = Report::new(args, "model_checking");
    if let Some(p) = &args.replay {
        let r = mcutil::load_replay(p);
        if r["kind"] == "commands" {
            let c = case_from(&r);
            println!("{:?}", c);
            for _ in 0..2 {
                match run_case(&c) {
                    Ok(Some((sig, msg))) => {
                        println!("replay verdict: violates ({sig}: {msg})");
                        rep.violation(Violation { signature: sig, summary: msg, replay: r.clone() });
                    }
                    Ok(None) => println!("replay verdict: holds"),
                    Err(e) => mcutil::machinery_error(&e),
                }
            }
        } else {
            let mut bag = VioBag::default();
            block_on_matrix(&mut bag);
            bag.drain_into(&mut rep);
        }
        return rep.finish();
    }
    let max_len = args.opt_usize("len", args.tier.pick(4, 6));
    let full_cut = args.opt_usize("cuts", args.tier.pick(4, 5));
    let mt_len = args.opt_usize("mtlen", args.tier.pick(3, 5));
    let mut cases = enumerate(max_len, full_cut, mt_len);
    let n_enumerated = cases.len();
    cases.extend(backlog_cases(args.opt_usize("backlog", args.tier.pick(129, 257))));
    rep.set("histories_with_a_stop_behind_a_backlog", cases.len() - n_enumerated);
    let mut bag = VioBag::default();
    let (mut with_stop, mut multi_batch, mut steps) = (0u64, 0u64, 0u64);
    // in chunks, so that a systematically failing tree (every case waiting for a watchdog) is
    // reported after the first chunks instead of after hours
    let mut results = vec![];
    let mut executed = 0usize;
    let mut total_bad = 0usize;
    for chunk in cases.chunks(args.threads.min(12) * 16) {
        let r = mcutil::par_map(args.threads.min(12), chunk, |_, c| run_case(c));
        let bad = r.iter().filter(|x| !matches!(x, Ok(None))).count();
        results.extend(r);
        executed += chunk.len();
        total_bad += bad;
        if (bad > chunk.len() / 4 && executed >= chunk.len() * 2) || total_bad >= 300 {
            rep.set("stopped_early_after_mass_failure", true);
            break;
        }
    }
    let cases = &cases[..executed.min(cases.len())];
    for (c, r) in cases.iter().zip(results) {
        steps += c.cmds.len() as u64;
        if c.cmds.contains(&Cmd::S) {
            with_stop += 1;
        }
        if c.batches.len() > 1 {
            multi_batch += 1;
        }
        match r {
            Ok(None) => {}
            Ok(Some((sig, msg))) => bag.add(&sig.clone(), || Violation { signature: sig.clone(), summary: format!("{msg} [history {:?} batches {:?} via {:?} on {:?}]", c.cmds, c.batches, c.via, c.subject), replay: case_json(c) }),
            Err(e) => mcutil::machinery_error(&e),
        }
    }
    let b = block_on_matrix(&mut bag);
    bag.drain_into(&mut rep);
    let n = cases.len() as u64;
    rep.set("states", steps + n);
    rep.set("transitions", steps);
    rep.set("traces_validated_against_impl", n + b);
    rep.set("histories", n);
    rep.set("histories_with_a_stop", with_stop);
    rep.set("histories_with_more_than_one_batch", multi_batch);
    rep.set("block_on_cases", b);
    rep.set("max_history_length", max_len);
    let early = rep.get_u64("stopped_early_after_mass_failure") != 0 || rep.get_bool("stopped_early_after_mass_failure");
    rep.set("exhaustive", !early);
    rep.sample(json!({"subject": "ThreadArbiter", "cmds": ["A", "F", "S", "F"], "batches": [2, 2], "via": "Alternate", "expect": "A and F start in this order on the arbiter thread; the last F never starts; join returns; spawn then returns false"}));
    rep.sample(json!({"subject": "SystemArbiter", "cmds": ["S", "F"], "batches": [2], "via": "Owner", "expect": "F never starts"}));
    rep.assume("real threads; determinism comes from gate tasks (a batch is queued while the arbiter thread is blocked) and from issuing sends hand over hand, so the channel order equals the history order; a task sent before a stop in the same batch may or may not start (not flagged)");
    rep.finish()
}
