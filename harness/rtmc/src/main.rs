//! Engine B `rtmc`: real `System` / `Arbiter` threads made deterministic by gate tasks and by
//! forcing message orders (DESIGN §5). No hooks.
mod c09;
mod c10;

use std::{
    sync::mpsc::{channel, Receiver, RecvTimeoutError},
    time::Duration,
};

pub const WATCHDOG: Duration = Duration::from_secs(10);

/// Runs `f` on a fresh thread and waits for it with a watchdog. `Err` = it did not finish (a
/// join that must return did not), in which case the thread is leaked.
pub fn with_watchdog<R: Send + 'static>(limit: Duration, f: impl FnOnce() -> R + Send + 'static) -> Result<R, String> {
    let (tx, rx): (_, Receiver<std::thread::Result<R>>) = channel();
    std::thread::Builder::new()
        .name("rtmc-case".into())
        .spawn(move || {
            let r = mcutil::quiet_catch(f);
            let _ = tx.send(r);
        })
        .expect("spawn");
    match rx.recv_timeout(limit) {
        Ok(Ok(r)) => Ok(r),
        Ok(Err(p)) => Err(format!("panicked: {}", mcutil::panic_message(&*p))),
        Err(RecvTimeoutError::Timeout) => Err(format!("did not finish within {limit:?} (deadlock: a join or run that must return did not)")),
        Err(RecvTimeoutError::Disconnected) => Err("case thread vanished".into()),
    }
}

fn main() {
    let args = mcutil::Args::parse();
    mcutil::silence_panics();
    mcutil::guarded_main(|| match args.property.as_str() {
        "C09" => c09::run(&args),
        "C10" => c10::run(&args),
        other => mcutil::machinery_error(&format!("rtmc does not serve {other}")),
    });
}
