//! C09 System stop delivers the exit code and stops every arbiter.
//!
//! Enumerated: n in 0..=3 arbiters x fate of each (stopped and joined early / handle dropped /
//! left running / running with a task that never completes) x origin of the (first) stop (system
//! thread before run, task on the system thread, a task on arbiter k, a task on arbiter k that
//! then stops its own arbiter - dead but still registered when Exit is processed -, a foreign
//! thread) x first code x second stop (none / queued right behind the first / from another
//! thread after the first) x `run` vs `run_with_code`. Racing messages are forced into each of
//! their orders by joins, so every case is a deterministic run of real threads.

use std::{
    sync::{
        atomic::{AtomicBool, Ordering},
        mpsc::channel,
        Arc,
    },
    time::{Duration, Instant},
};

use actix_rt::{Arbiter, System};
use mcutil::{json, Args, Report, Value, VioBag, Violation};

#[derive(Clone, Copy, Debug, PartialEq, Eq)]
enum Fate {
    EarlyStopJoin,
    HandleDropped,
    Running,
    RunningPendingTask,
    /// running, its thread blocked inside a task until `run` has returned, with this many short
    /// commands queued behind that task - so the system's Stop is found at the end of a backlog
    Busy(usize),
    /// running; a task on it creates a further arbiter (an arbiter of the same system made on a
    /// thread other than the system thread), which must be stopped too
    SpawnsChild,
}
const FATES: [Fate; 4] = [Fate::EarlyStopJoin, Fate::HandleDropped, Fate::Running, Fate::RunningPendingTask];

#[derive(Clone, Copy, Debug, PartialEq, Eq)]
enum Origin {
    BeforeRun,
    TaskOnSystemThread,
    Arbiter(usize),
    /// the task also stops its own arbiter, which is joined before run: Exit is queued ahead of
    /// that arbiter's Deregister
    ArbiterThenDies(usize),
    ForeignThread,
}

#[derive(Clone, Copy, Debug, PartialEq, Eq)]
enum Second {
    None,
    RightBehind(i32),
    FromOtherThreadAfter(i32),
    /// a further arbiter is created after the first stop and before the second one (both stops
    /// issued on the system thread before `run`): it was created before *a* stop was issued
    AfterNewArbiter(i32),
}

#[derive(Clone, Debug)]
struct Case {
    fates: Vec<Fate>,
    origin: Origin,
    code: i32,
    second: Second,
    use_run: bool,
}

fn case_json(c: &Case) -> Value {
    json!({"fates": c.fates.iter().map(|f| format!("{:?}", f)).collect::<Vec<_>>(), "origin": format!("{:?}", c.origin), "code": c.code, "second": format!("{:?}", c.second), "use_run": c.use_run})
}

fn case_from(v: &Value) -> Case {
    let num = |s: &str| -> i64 { s.chars().filter(|c| c.is_ascii_digit() || *c == '-').collect::<String>().parse().unwrap_or(0) };
    let o = v["origin"].as_str().unwrap();
    let origin = if o == "BeforeRun" {
        Origin::BeforeRun
    } else if o == "TaskOnSystemThread" {
        Origin::TaskOnSystemThread
    } else if o == "ForeignThread" {
        Origin::ForeignThread
    } else if o.starts_with("ArbiterThenDies") {
        Origin::ArbiterThenDies(num(o) as usize)
    } else {
        Origin::Arbiter(num(o) as usize)
    };
    let s = v["second"].as_str().unwrap();
    let second = if s == "None" {
        Second::None
    } else if s.starts_with("RightBehind") {
        Second::RightBehind(num(s) as i32)
    } else if s.starts_with("AfterNewArbiter") {
        Second::AfterNewArbiter(num(s) as i32)
    } else {
        Second::FromOtherThreadAfter(num(s) as i32)
    };
    Case {
        fates: v["fates"].as_array().unwrap().iter().map(|f| match f.as_str().unwrap() { "EarlyStopJoin" => Fate::EarlyStopJoin, "HandleDropped" => Fate::HandleDropped, "Running" => Fate::Running, "SpawnsChild" => Fate::SpawnsChild, b if b.starts_with("Busy") => Fate::Busy(num(b) as usize), _ => Fate::RunningPendingTask }).collect(),
        origin,
        code: v["code"].as_i64().unwrap() as i32,
        second,
        use_run: v["use_run"].as_bool().unwrap(),
    }
}

struct ExitFlag(Arc<AtomicBool>);
impl Drop for ExitFlag {
    fn drop(&mut self) {
        self.0.store(true, Ordering::SeqCst);
    }
}
thread_local! {
    static EXIT: std::cell::RefCell<Option<ExitFlag>> = const { std::cell::RefCell::new(None) };
}

struct Outcome {
    run_result: Result<i32, String>,
    /// per arbiter: did its thread end (join returned / exit flag set) within the watchdog
    ended: Vec<Option<bool>>,
    /// arbiters that were created by a task on another arbiter
    child_ended: Vec<bool>,
}

fn issue(sys: &System, code: i32, second: Second) {
    sys.stop_with_code(code);
    if let Second::RightBehind(c2) = second {
        sys.stop_with_code(c2);
    }
}

fn run_case(c: &Case) -> Outcome {
    let runner = System::new();
    let sys = System::current();
    let mut arbs: Vec<Option<Arbiter>> = vec![];
    let mut flags: Vec<Arc<AtomicBool>> = vec![];
    let mut gates = vec![];
    let mut children: Vec<Arbiter> = vec![];
    let backlog_ran = Arc::new(std::sync::atomic::AtomicUsize::new(0));
    for f in &c.fates {
        let arb = Arbiter::new();
        let flag = Arc::new(AtomicBool::new(false));
        {
            let flag = flag.clone();
            let (tx, rx) = channel();
            arb.spawn_fn(move || {
                EXIT.with(|e| *e.borrow_mut() = Some(ExitFlag(flag)));
                let _ = tx.send(());
            });
            let _ = rx.recv_timeout(Duration::from_secs(5));
        }
        flags.push(flag);
        match f {
            Fate::EarlyStopJoin => {
                arb.stop();
                let _ = arb.join();
                arbs.push(None);
            }
            Fate::HandleDropped => {
                drop(arb);
                arbs.push(None);
            }
            Fate::Running => arbs.push(Some(arb)),
            Fate::RunningPendingTask => {
                arb.spawn(std::future::pending());
                arbs.push(Some(arb));
            }
            Fate::SpawnsChild => {
                let (ctx, crx) = channel::<Arbiter>();
                arb.spawn_fn(move || {
                    let child = Arbiter::new();
                    let _ = ctx.send(child);
                });
                if let Ok(child) = crx.recv_timeout(Duration::from_secs(5)) {
                    children.push(child);
                }
                arbs.push(Some(arb));
            }
            Fate::Busy(k) => {
                let (reached_tx, reached_rx) = channel::<()>();
                let (gate_tx, gate_rx) = channel::<()>();
                arb.spawn_fn(move || {
                    let _ = reached_tx.send(());
                    let _ = gate_rx.recv_timeout(crate::WATCHDOG * 2);
                });
                let _ = reached_rx.recv_timeout(Duration::from_secs(5));
                for _ in 0..*k {
                    let n = backlog_ran.clone();
                    arb.spawn_fn(move || {
                        n.fetch_add(1, Ordering::SeqCst);
                    });
                }
                gates.push(gate_tx);
                arbs.push(Some(arb));
            }
        }
    }
    let (code, second) = (c.code, c.second);
    let mut fates = c.fates.clone();
    match c.origin {
        Origin::BeforeRun if matches!(second, Second::AfterNewArbiter(_)) => {
            sys.stop_with_code(code);
            let late = Arbiter::new();
            let flag = Arc::new(AtomicBool::new(false));
            {
                let flag = flag.clone();
                let (tx, rx) = channel();
                late.spawn_fn(move || {
                    EXIT.with(|e| *e.borrow_mut() = Some(ExitFlag(flag)));
                    let _ = tx.send(());
                });
                let _ = rx.recv_timeout(Duration::from_secs(5));
            }
            flags.push(flag);
            arbs.push(Some(late));
            fates.push(Fate::Running);
            if let Second::AfterNewArbiter(c2) = second {
                sys.stop_with_code(c2);
            }
        }
        Origin::BeforeRun => issue(&sys, code, second),
        Origin::ForeignThread => {
            let s2 = sys.clone();
            std::thread::spawn(move || issue(&s2, code, second)).join().unwrap();
        }
        Origin::TaskOnSystemThread => {
            runner.runtime().spawn(async move { issue(&System::current(), code, second) });
        }
        Origin::Arbiter(k) | Origin::ArbiterThenDies(k) => {
            let dies = matches!(c.origin, Origin::ArbiterThenDies(_));
            let (tx, rx) = channel();
            if let Some(a) = arbs[k].as_ref() {
                a.spawn_fn(move || {
                    issue(&System::current(), code, second);
                    if dies {
                        Arbiter::current().stop();
                    }
                    let _ = tx.send(());
                });
            }
            let _ = rx.recv_timeout(Duration::from_secs(5));
            if dies {
                if let Some(a) = arbs[k].take() {
                    let _ = a.join();
                }
            }
        }
    }
    if let Second::FromOtherThreadAfter(c2) = c.second {
        let s2 = sys.clone();
        if matches!(c.origin, Origin::TaskOnSystemThread) {
            // ordered behind the first by running as a second task on the system thread
            runner.runtime().spawn(async move { System::current().stop_with_code(c2) });
        } else {
            std::thread::spawn(move || s2.stop_with_code(c2)).join().unwrap();
        }
    }
    let run_result = if c.use_run {
        match runner.run() {
            Ok(()) => Ok(0),
            Err(e) => {
                let m = e.to_string();
                match m.rsplit(' ').next().and_then(|n| n.parse::<i32>().ok()) {
                    Some(n) if m.contains("Non-zero exit code") => Ok(n),
                    _ => Err(m),
                }
            }
        }
    } else {
        runner.run_with_code().map_err(|e| e.to_string())
    };
    // the busy arbiters find their backlog (queued commands, then the system's Stop) only now
    drop(gates);
    // every arbiter created before the stop must end
    let mut child_ended = vec![];
    let mut ended = vec![];
    for (i, a) in arbs.into_iter().enumerate() {
        match (a, fates[i]) {
            (_, Fate::EarlyStopJoin) => ended.push(None),
            (Some(a), _) => {
                let (tx, rx) = channel();
                std::thread::spawn(move || {
                    let _ = a.join();
                    let _ = tx.send(());
                });
                ended.push(Some(rx.recv_timeout(crate::WATCHDOG / 2).is_ok()));
            }
            (None, _) => {
                let t0 = Instant::now();
                while !flags[i].load(Ordering::SeqCst) && t0.elapsed() < crate::WATCHDOG / 2 {
                    std::thread::sleep(Duration::from_millis(2));
                }
                ended.push(Some(flags[i].load(Ordering::SeqCst)));
            }
        }
    }
    for child in children {
        let (tx, rx) = channel();
        std::thread::spawn(move || {
            let _ = child.join();
            let _ = tx.send(());
        });
        child_ended.push(rx.recv_timeout(crate::WATCHDOG / 2).is_ok());
    }
    Outcome { run_result, ended, child_ended }
}

fn check(c: &Case, o: &Outcome) -> Option<(String, String)> {
    match &o.run_result {
        Ok(code) if *code == c.code => {}
        Ok(0) if c.use_run && c.code != 0 && (matches!(c.second, Second::None) || !matches!(c.second, Second::RightBehind(0))) => {
            return Some(("C09:run-ok-for-nonzero-code".into(), format!("run() returned Ok(()) although the system was stopped with the non-zero code {} (second stop: {:?})", c.code, c.second)));
        }
        Ok(code) => {
            let sig = if matches!(c.second, Second::None) { "C09:wrong-exit-code" } else { "C09:first-stop-does-not-win" };
            return Some((sig.into(), format!("run returned exit code {code}, the first stop_with_code was {} (second stop: {:?})", c.code, c.second)));
        }
        Err(e) => return Some(("C09:run-failed".into(), format!("run failed: {e}"))),
    }
    if o.child_ended.iter().any(|e| !*e) {
        return Some(("C09:arbiter-created-on-another-arbiters-thread-not-stopped".into(), format!("an arbiter that a task on another arbiter had created (same system, created before the stop) was still running {:?} after the system stopped", crate::WATCHDOG / 2)));
    }
    for (i, e) in o.ended.iter().enumerate() {
        if *e == Some(false) {
            let sig = if matches!(c.origin, Origin::ArbiterThenDies(_)) { "C09:arbiter-not-stopped:with-a-dead-arbiter-still-registered" } else { "C09:arbiter-not-stopped" };
            if i >= c.fates.len() {
                return Some(("C09:arbiter-created-between-two-stops-not-stopped".into(), format!("the arbiter created after the first stop and before the second one was still running {:?} after the system stopped", crate::WATCHDOG / 2)));
            }
            return Some((sig.into(), format!("arbiter {i} ({:?}) was still running {:?} after the system stopped", c.fates[i], crate::WATCHDOG / 2)));
        }
    }
    None
}

fn enumerate(max_n: usize) -> Vec<Case> {
    let mut out = vec![];
    for n in 0..=max_n {
        let mut fate_lists: Vec<Vec<Fate>> = vec![];
        mcutil::for_each_seq(4, n, |s| fate_lists.push(s.iter().map(|i| FATES[*i]).collect()));
        for fates in fate_lists {
            let mut origins = vec![Origin::BeforeRun, Origin::TaskOnSystemThread, Origin::ForeignThread];
            for (k, f) in fates.iter().enumerate() {
                if matches!(f, Fate::Running | Fate::RunningPendingTask | Fate::SpawnsChild) {
                    origins.push(Origin::Arbiter(k));
                    origins.push(Origin::ArbiterThenDies(k));
                }
            }
            for origin in origins {
                let codes: &[i32] = if n <= 1 { &[0, 7, -1, i32::MIN, i32::MAX] } else { &[0, 7] };
                for &code in codes {
                    for second in [Second::None, Second::RightBehind(9), Second::RightBehind(0), Second::FromOtherThreadAfter(9)] {
                        if second == Second::RightBehind(0) && code == 0 {
                            continue;
                        }
                        for use_run in [false, true] {
                            if use_run && n > 1 {
                                continue; // run() only differs in the mapping of the code
                            }
                            out.push(Case { fates: fates.clone(), origin, code, second, use_run });
                        }
                    }
                    if origin == Origin::BeforeRun && n <= 2 && (code == 0 || code == 7) {
                        out.push(Case { fates: fates.clone(), origin, code, second: Second::AfterNewArbiter(9), use_run: false });
                    }
                }
            }
        }
    }
    out
}

/// Arbiters created from different threads of one system.
fn enumerate_children() -> Vec<Case> {
    let mut out = vec![];
    for fates in [vec![Fate::SpawnsChild], vec![Fate::SpawnsChild, Fate::Running], vec![Fate::Running, Fate::SpawnsChild], vec![Fate::SpawnsChild, Fate::SpawnsChild], vec![Fate::SpawnsChild, Fate::EarlyStopJoin]] {
        for origin in [Origin::BeforeRun, Origin::TaskOnSystemThread, Origin::ForeignThread, Origin::Arbiter(0)] {
            out.push(Case { fates: fates.clone(), origin, code: 7, second: Second::None, use_run: false });
        }
    }
    out
}

/// Arbiters that are busy while the system stops: the Stop of the system reaches them behind a
/// backlog of `k` queued commands, for every k up to `max_backlog`.
fn enumerate_busy(max_backlog: usize, step_above_40: usize) -> Vec<Case> {
    let mut out = vec![];
    let mut ks: Vec<usize> = (0..=max_backlog.min(40)).collect();
    let mut k = 40 + step_above_40;
    while k <= max_backlog {
        ks.push(k);
        k += step_above_40;
    }
    // sizes around the usual powers of two, whatever the tier (bounded queues, per-poll budgets)
    for k in [127usize, 128, 129, 255, 256, 257, 300, 511, 512, 513] {
        if !ks.contains(&k) {
            ks.push(k);
        }
    }
    for k in ks {
        for fates in [vec![Fate::Busy(k)], vec![Fate::Busy(k), Fate::Running], vec![Fate::Running, Fate::Busy(k)], vec![Fate::Busy(k), Fate::Busy(1)]] {
            let mut origins = vec![Origin::BeforeRun, Origin::TaskOnSystemThread, Origin::ForeignThread];
            if let Some(i) = fates.iter().position(|f| *f == Fate::Running) {
                origins.push(Origin::Arbiter(i));
            }
            for origin in origins {
                out.push(Case { fates: fates.clone(), origin, code: 7, second: Second::None, use_run: false });
            }
        }
    }
    out
}

/// An arbiter whose runtime factory is slow (held at a gate): `Arbiter::with_tokio_rt` must not
/// return before the arbiter's thread has started and registered, else a stop issued right after
/// cannot reach it. The gate opens when the constructor has returned or after `cap`.
fn run_slow_factory(foreign_stop: bool, cap: Duration) -> Option<(String, String)> {
    let runner = System::new();
    let sys = System::current();
    let (gate_tx, gate_rx) = channel::<()>();
    let (ret_tx, ret_rx) = channel::<()>();
    let factory_done = Arc::new(AtomicBool::new(false));
    let releaser = std::thread::spawn(move || {
        let _ = ret_rx.recv_timeout(cap);
        drop(gate_tx);
    });
    let fd = factory_done.clone();
    let gate_rx = std::sync::Mutex::new(gate_rx);
    let arb = Arbiter::with_tokio_rt(move || {
        let _ = gate_rx.lock().unwrap().recv();
        fd.store(true, Ordering::SeqCst);
        tokio::runtime::Builder::new_current_thread().enable_all().build().unwrap()
    });
    let started_at_return = factory_done.load(Ordering::SeqCst);
    if foreign_stop {
        let s2 = sys.clone();
        std::thread::spawn(move || s2.stop_with_code(3)).join().unwrap();
    } else {
        sys.stop_with_code(3);
    }
    let _ = ret_tx.send(());
    let _ = releaser.join();
    let code = runner.run_with_code();
    let (tx, rx) = channel();
    std::thread::spawn(move || {
        let _ = arb.join();
        let _ = tx.send(());
    });
    let ended = rx.recv_timeout(crate::WATCHDOG / 2).is_ok();
    if !started_at_return {
        return Some(("C09:arbiter-constructor-returned-before-the-thread-registered".into(), format!("Arbiter::with_tokio_rt returned while the arbiter's thread was still building its runtime (not registered with the system yet); a stop issued right after it {} (run returned {:?})", if ended { "still ended it" } else { "never reached it: join did not return" }, code.map_err(|e| e.to_string()))));
    }
    if !ended {
        return Some(("C09:arbiter-not-stopped".into(), "an arbiter with a slow runtime factory, created before the stop, was still running after the system stopped".into()));
    }
    match code {
        Ok(3) => None,
        other => Some(("C09:wrong-exit-code".into(), format!("run returned {:?}, stop_with_code(3) was the only stop", other.map_err(|e| e.to_string())))),
    }
}

pub fn run(args: &Args) -> i32 {
    let mut rep = Report::new(args, "model_checking");
    if let Some(p) = &args.replay {
        let r = mcutil::load_replay(p);
        if r["kind"] == "slow-factory" {
            let (f, cap) = (r["foreign_stop"].as_bool().unwrap_or(false), Duration::from_millis(r["cap_ms"].as_u64().unwrap_or(1500)));
            match crate::with_watchdog(cap + crate::WATCHDOG * 2, move || run_slow_factory(f, cap)) {
                Ok(None) => println!("replay verdict: holds"),
                Ok(Some((sig, msg))) => {
                    println!("replay verdict: violates ({sig}: {msg})");
                    rep.violation(Violation { signature: sig, summary: msg, replay: r.clone() });
                }
                Err(e) => {
                    println!("replay verdict: violates (deadlock: {e})");
                    rep.violation(Violation { signature: "C09:deadlock".into(), summary: e, replay: r.clone() });
                }
            }
            return rep.finish();
        }
        let c = case_from(&r);
        println!("{:?}", c);
        for _ in 0..2 {
            let c2 = c.clone();
            match crate::with_watchdog(crate::WATCHDOG * 3, move || run_case(&c2)) {
                Ok(o) => match check(&c, &o) {
                    Some((sig, msg)) => {
                        println!("replay verdict: violates ({sig}: {msg})");
                        rep.violation(Violation { signature: sig, summary: msg, replay: r.clone() });
                    }
                    None => println!("replay verdict: holds (run -> {:?}, arbiters ended {:?})", o.run_result, o.ended),
                },
                Err(e) => {
                    println!("replay verdict: violates (deadlock: {e})");
                    rep.violation(Violation { signature: "C09:deadlock".into(), summary: e, replay: r.clone() });
                }
            }
        }
        return rep.finish();
    }
    let max_n = args.opt_usize("arbiters", args.tier.pick(3, 4));
    let mut cases = enumerate(max_n);
    if args.tier == mcutil::Tier::Quick {
        // plus the n=3 cases that matter most: one arbiter dies registered, the others run
        cases.extend(enumerate(3).into_iter().filter(|c| c.fates.len() == 3 && matches!(c.origin, Origin::ArbiterThenDies(_)) && c.fates.iter().all(|f| *f == Fate::Running) && !c.use_run && c.second == Second::None));
    }
    let max_backlog = args.opt_usize("backlog", args.tier.pick(80, 400));
    cases.extend(enumerate_busy(max_backlog, 20));
    cases.extend(enumerate_children());
    let mut results = vec![];
    let mut executed = 0usize;
    let mut total_bad = 0usize;
    for chunk in cases.chunks(args.threads.min(12) * 16) {
        let r = mcutil::par_map(args.threads.min(12), chunk, |_, c| {
            let c2 = c.clone();
            crate::with_watchdog(crate::WATCHDOG * 3, move || run_case(&c2)).map(|o| check(c, &o))
        });
        let bad = r.iter().filter(|x| !matches!(x, Ok(None))).count();
        results.extend(r);
        executed += chunk.len();
        total_bad += bad;
        if (bad > chunk.len() / 4 && executed >= chunk.len() * 2) || total_bad >= 300 {
            rep.set("stopped_early_after_mass_failure", true);
            break;
        }
    }
    let cases = &cases[..executed.min(cases.len())];
    let mut bag = VioBag::default();
    let (mut multi, mut dead_registered, mut two_stops, mut steps) = (0u64, 0u64, 0u64, 0u64);
    for (c, r) in cases.iter().zip(results) {
        steps += 2 + c.fates.len() as u64 + (c.second != Second::None) as u64;
        if c.fates.len() >= 2 {
            multi += 1;
        }
        if matches!(c.origin, Origin::ArbiterThenDies(_)) {
            dead_registered += 1;
        }
        if c.second != Second::None {
            two_stops += 1;
        }
        match r {
            Ok(None) => {}
            Ok(Some((sig, msg))) => bag.add(&sig.clone(), || Violation { signature: sig.clone(), summary: format!("{msg} [{:?}]", c), replay: case_json(c) }),
            Err(e) => bag.add("C09:deadlock", || Violation { signature: "C09:deadlock".into(), summary: format!("{e} [{:?}]", c), replay: case_json(c) }),
        }
    }
    // slow runtime factories (real time: the gate stays shut for `cap` on a correct tree)
    let cap = Duration::from_millis(args.opt_usize("slowcap_ms", args.tier.pick(1500, 6000)) as u64);
    let slow = mcutil::par_map(2, &[false, true], |_, foreign| {
        let f = *foreign;
        crate::with_watchdog(cap + crate::WATCHDOG * 2, move || run_slow_factory(f, cap))
    });
    for (i, r) in slow.into_iter().enumerate() {
        let replay = json!({"kind": "slow-factory", "foreign_stop": i == 1, "cap_ms": cap.as_millis() as u64});
        match r {
            Ok(None) => {}
            Ok(Some((sig, msg))) => bag.add(&sig.clone(), || Violation { signature: sig.clone(), summary: msg.clone(), replay: replay.clone() }),
            Err(e) => bag.add("C09:deadlock", || Violation { signature: "C09:deadlock".into(), summary: format!("slow-factory case: {e}"), replay: replay.clone() }),
        }
    }
    rep.set("slow_runtime_factory_cases", 2);
    rep.set("slow_runtime_factory_gate_ms", cap.as_millis() as u64);
    bag.drain_into(&mut rep);
    let n = cases.len() as u64;
    rep.set("states", steps + n);
    rep.set("transitions", steps);
    rep.set("traces_validated_against_impl", n);
    rep.set("configurations", n);
    rep.set("configurations_with_two_or_more_arbiters", multi);
    rep.set("configurations_with_a_dead_but_registered_arbiter", dead_registered);
    rep.set("configurations_with_two_stops", two_stops);
    rep.set("max_arbiters", max_n);
    rep.set("configurations_with_a_busy_arbiter_and_a_command_backlog", cases.iter().filter(|c| c.fates.iter().any(|f| matches!(f, Fate::Busy(_)))).count() as u64);
    rep.set("max_command_backlog", max_backlog);
    rep.set("configurations_with_a_negative_exit_code", cases.iter().filter(|c| c.code < 0).count() as u64);
    let early = rep.get_u64("stopped_early_after_mass_failure") != 0 || rep.get_bool("stopped_early_after_mass_failure");
    rep.set("exhaustive", !early);
    rep.sample(json!({"fates": ["Running", "RunningPendingTask", "EarlyStopJoin"], "origin": "ArbiterThenDies(0)", "code": 7, "second": "RightBehind(9)", "expect": "run_with_code returns 7; arbiter 1 ends although arbiter 0 is dead but still registered when Exit is handled"}));
    rep.assume("racing messages (Deregister vs Exit, first vs second stop) are forced into each order by joins; 'randomised thread timing' of the quantifier is replaced by these forced orders (DESIGN §13)");
    rep.finish()
}
