//! Engine C `libmc`: bounded-exhaustive enumeration of the sequential crates against
//! boring reference models (DESIGN §6). One sub-command per property.

mod c13;
mod c14;
mod c15;
mod c16;
mod c17;
mod c20;
mod svc;

use mcutil::{machinery_error, Args};

fn main() {
    let args = Args::parse();
    mcutil::silence_panics();
    mcutil::guarded_main(|| match args.property.as_str() {
        "C11" => svc::run_c11(&args),
        "C12" => svc::run_c12(&args),
        "C13" => c13::run(&args),
        "C14" => c14::run(&args),
        "C15" => c15::run(&args),
        "C16" => c16::run(&args),
        "C17" => c17::run(&args),
        "C20" => c20::run(&args),
        other => machinery_error(&format!("libmc does not serve {other}")),
    });
}
