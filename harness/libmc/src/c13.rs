//! C13 Framed decoding does not depend on how the bytes arrive.
//!
//! Enumerated: for LinesCodec, BytesCodec and a length-prefixed test codec: every byte
//! string of length <= N over an alphabet containing the codec's delimiters x every
//! composition of the string into read chunks x every placement of <= P `Pending` results
//! before reads (incl. the EOF read) x one injected I/O error at every read position; plus
//! deterministic long streams crossing the 1 KiB / 8 KiB buffer marks in several chunkings.
//! Oracle (differential): the same codec type run over the whole buffer (decode until None,
//! then decode_eof until None); an injected I/O error must appear as one item after exactly
//! the frames that are complete in the bytes delivered before it.

use std::{
    collections::VecDeque,
    io,
    pin::Pin,
    task::{Context, Poll},
};

use actix_codec::{AsyncRead, AsyncWrite, BytesCodec, Decoder, Framed, LinesCodec, ReadBuf};
use bytes::{Buf, BytesMut};
use futures_core::Stream;
use mcutil::{json, Args, CountWaker, Report, Value, Violation};

// ---- scripted transport -----------------------------------------------------------------

#[derive(Debug, Clone, PartialEq, Eq)]
pub enum Step {
    Data(Vec<u8>),
    Pending,
    Err,
}

pub struct ScriptRead {
    steps: VecDeque<Step>,
    pub eof_reads: usize,
    pub pendings_without_wake: usize,
}

impl AsyncRead for ScriptRead {
    fn poll_read(mut self: Pin<&mut Self>, cx: &mut Context<'_>, buf: &mut ReadBuf<'_>) -> Poll<io::Result<()>> {
        match self.steps.pop_front() {
            None => {
                self.eof_reads += 1;
                Poll::Ready(Ok(()))
            }
            Some(Step::Pending) => {
                cx.waker().wake_by_ref();
                Poll::Pending
            }
            Some(Step::Err) => Poll::Ready(Err(io::Error::new(io::ErrorKind::Other, "injected-io-error"))),
            Some(Step::Data(mut d)) => {
                let n = d.len().min(buf.remaining());
                assert!(n > 0, "Framed offered a zero-capacity read buffer");
                buf.put_slice(&d[..n]);
                if n < d.len() {
                    d.drain(..n);
                    self.steps.push_front(Step::Data(d));
                }
                Poll::Ready(Ok(()))
            }
        }
    }
}

impl AsyncWrite for ScriptRead {
    fn poll_write(self: Pin<&mut Self>, _: &mut Context<'_>, b: &[u8]) -> Poll<io::Result<usize>> {
        Poll::Ready(Ok(b.len()))
    }
    fn poll_flush(self: Pin<&mut Self>, _: &mut Context<'_>) -> Poll<io::Result<()>> {
        Poll::Ready(Ok(()))
    }
    fn poll_shutdown(self: Pin<&mut Self>, _: &mut Context<'_>) -> Poll<io::Result<()>> {
        Poll::Ready(Ok(()))
    }
}

// ---- codecs under test --------------------------------------------------------------------

/// 1-byte length prefix. Length byte 0xEE is a decode error that consumes the byte; at EOF
/// an incomplete frame is surfaced as `Partial` (so the codec has an end-of-stream frame).
#[derive(Debug, Clone, Default)]
pub struct LenPrefixed {
    /// the end-of-stream trailer has been handed out
    trailer_sent: bool,
}

#[derive(Debug, Clone, PartialEq, Eq)]
pub enum LpFrame {
    Full(Vec<u8>),
    Partial(Vec<u8>),
    /// emitted once at end of stream, from an *empty* buffer (a codec with end-of-stream frames)
    Trailer,
}

impl Decoder for LenPrefixed {
    type Item = LpFrame;
    type Error = io::Error;
    fn decode(&mut self, src: &mut BytesMut) -> Result<Option<LpFrame>, io::Error> {
        if src.is_empty() {
            return Ok(None);
        }
        let n = src[0] as usize;
        if src[0] == 0xEE {
            src.advance(1);
            return Err(io::Error::new(io::ErrorKind::InvalidData, "bad length byte"));
        }
        if src.len() < 1 + n {
            return Ok(None);
        }
        src.advance(1);
        Ok(Some(LpFrame::Full(src.split_to(n).to_vec())))
    }
    fn decode_eof(&mut self, src: &mut BytesMut) -> Result<Option<LpFrame>, io::Error> {
        match self.decode(src)? {
            Some(f) => Ok(Some(f)),
            None if src.is_empty() => {
                if self.trailer_sent {
                    Ok(None)
                } else {
                    self.trailer_sent = true;
                    Ok(Some(LpFrame::Trailer))
                }
            }
            None => Ok(Some(LpFrame::Partial(src.split().to_vec()))),
        }
    }
}

pub trait Subject: Decoder<Error = io::Error> + Clone + Send + Sync + 'static {
    const NAME: &'static str;
    /// frames are determined by the byte stream alone (false for BytesCodec)
    const FRAMES_INDEPENDENT_OF_ARRIVAL: bool;
    fn alphabet() -> Vec<u8>;
    fn show(item: &Self::Item) -> String;
    fn bytes_of(item: &Self::Item) -> Vec<u8>;
    /// `Sink::poll_close` of a `Framed` over this codec (closes the *write* direction)
    fn close_write(f: Pin<&mut Framed<ScriptRead, Self>>, cx: &mut Context<'_>) -> Poll<Result<(), io::Error>>;
}

impl actix_codec::Encoder<Vec<u8>> for LenPrefixed {
    type Error = io::Error;
    fn encode(&mut self, item: Vec<u8>, dst: &mut BytesMut) -> Result<(), io::Error> {
        dst.extend_from_slice(&[item.len() as u8]);
        dst.extend_from_slice(&item);
        Ok(())
    }
}

impl Subject for LinesCodec {
    const NAME: &'static str = "LinesCodec";
    const FRAMES_INDEPENDENT_OF_ARRIVAL: bool = true;
    fn alphabet() -> Vec<u8> {
        vec![b'a', b'\r', b'\n', 0xFF]
    }
    fn show(i: &String) -> String {
        format!("{:?}", i)
    }
    fn bytes_of(i: &String) -> Vec<u8> {
        i.as_bytes().to_vec()
    }
    fn close_write(f: Pin<&mut Framed<ScriptRead, Self>>, cx: &mut Context<'_>) -> Poll<Result<(), io::Error>> {
        futures_sink::Sink::<String>::poll_close(f, cx)
    }
}

impl Subject for BytesCodec {
    const NAME: &'static str = "BytesCodec";
    const FRAMES_INDEPENDENT_OF_ARRIVAL: bool = false;
    fn alphabet() -> Vec<u8> {
        vec![b'a', b'b', b'\n']
    }
    fn show(i: &BytesMut) -> String {
        format!("{:?}", &i[..])
    }
    fn bytes_of(i: &BytesMut) -> Vec<u8> {
        i.to_vec()
    }
    fn close_write(f: Pin<&mut Framed<ScriptRead, Self>>, cx: &mut Context<'_>) -> Poll<Result<(), io::Error>> {
        futures_sink::Sink::<bytes::Bytes>::poll_close(f, cx)
    }
}

impl Subject for LenPrefixed {
    const NAME: &'static str = "LenPrefixed";
    const FRAMES_INDEPENDENT_OF_ARRIVAL: bool = true;
    fn alphabet() -> Vec<u8> {
        vec![0, 1, 2, b'x', 0xEE]
    }
    fn show(i: &LpFrame) -> String {
        format!("{:?}", i)
    }
    fn bytes_of(i: &LpFrame) -> Vec<u8> {
        match i {
            LpFrame::Full(v) | LpFrame::Partial(v) => v.clone(),
            LpFrame::Trailer => vec![],
        }
    }
    fn close_write(f: Pin<&mut Framed<ScriptRead, Self>>, cx: &mut Context<'_>) -> Poll<Result<(), io::Error>> {
        futures_sink::Sink::<Vec<u8>>::poll_close(f, cx)
    }
}

#[derive(Debug, Clone, PartialEq, Eq)]
pub enum Obs {
    Item(String, Vec<u8>),
    DecodeErr,
    IoErr,
}

fn obs_of<C: Subject>(r: Result<C::Item, io::Error>) -> Obs {
    match r {
        Ok(i) => Obs::Item(C::show(&i), C::bytes_of(&i)),
        Err(e) if e.to_string().contains("injected-io-error") => Obs::IoErr,
        Err(_) => Obs::DecodeErr,
    }
}

/// Whole-buffer reference: decode until None (optionally then decode_eof until None).
fn reference<C: Subject>(codec: &C, data: &[u8], eof: bool) -> Vec<Obs> {
    let mut c = codec.clone();
    let mut buf = BytesMut::from(data);
    let mut out = vec![];
    let fuel = data.len() * 2 + 4;
    for _ in 0..fuel {
        match c.decode(&mut buf) {
            Ok(None) => break,
            Ok(Some(i)) => out.push(obs_of::<C>(Ok(i))),
            Err(e) => out.push(obs_of::<C>(Err(e))),
        }
    }
    if eof {
        for _ in 0..fuel {
            match c.decode_eof(&mut buf) {
                Ok(None) => break,
                Ok(Some(i)) => out.push(obs_of::<C>(Ok(i))),
                Err(e) => out.push(obs_of::<C>(Err(e))),
            }
        }
    }
    out
}

pub struct RunOut {
    pub items: Vec<Obs>,
    pub pendings: usize,
    pub ended: bool,
}

/// Conversions of a `Framed` that must keep both buffers, applied after some frames were read.
#[derive(Clone, Copy, Debug, PartialEq, Eq)]
pub enum Conv {
    IntoMapCodec,
    ReplaceCodec,
    IntoMapIo,
    PartsRoundTrip,
    /// not a conversion: the write direction is closed (`Sink::poll_close`), reading goes on
    CloseWrite,
}
pub const CONVS: [Conv; 5] = [Conv::IntoMapCodec, Conv::ReplaceCodec, Conv::IntoMapIo, Conv::PartsRoundTrip, Conv::CloseWrite];

fn drive<C: Subject>(codec: &C, script: &[Step]) -> Result<RunOut, String> {
    drive_with(codec, script, &[], None)
}

/// `prebuf`: bytes that are already in the read buffer when the `Framed` is built
/// (`FramedParts::with_read_buf` + `from_parts`); `conv`: a conversion applied once that many
/// items have been produced.
fn drive_with<C: Subject>(codec: &C, script: &[Step], prebuf: &[u8], conv: Option<(usize, Conv)>) -> Result<RunOut, String> {
    let io = ScriptRead { steps: script.iter().cloned().collect(), eof_reads: 0, pendings_without_wake: 0 };
    let n_pending = script.iter().filter(|s| **s == Step::Pending).count();
    let total: usize = script.iter().map(|s| if let Step::Data(d) = s { d.len() } else { 0 }).sum::<usize>() + prebuf.len();
    let mut framed = if prebuf.is_empty() { Framed::new(io, codec.clone()) } else { Framed::from_parts(actix_codec::FramedParts::with_read_buf(io, codec.clone(), BytesMut::from(prebuf))) };
    let w = CountWaker::new(0);
    let waker = w.waker();
    let mut cx = Context::from_waker(&waker);
    let mut out = RunOut { items: vec![], pendings: 0, ended: false };
    let fuel = total * 2 + script.len() + n_pending + 16;
    let mut converted = false;
    for _ in 0..fuel {
        if let Some((after, kind)) = conv {
            if !converted && out.items.len() == after {
                converted = true;
                framed = match kind {
                    Conv::IntoMapCodec => framed.into_map_codec(|c| c),
                    Conv::ReplaceCodec => {
                        let current = framed.codec_ref().clone();
                        framed.replace_codec(current)
                    }
                    Conv::IntoMapIo => framed.into_map_io(|io| io),
                    Conv::PartsRoundTrip => Framed::from_parts(framed.into_parts()),
                    Conv::CloseWrite => {
                        if !matches!(C::close_write(Pin::new(&mut framed), &mut cx), Poll::Ready(Ok(()))) {
                            return Err("poll_close on an idle Framed over a transport that is always writable did not succeed".into());
                        }
                        framed
                    }
                };
            }
        }
        match Pin::new(&mut framed).poll_next(&mut cx) {
            Poll::Pending => {
                out.pendings += 1;
                if w.take() == 0 {
                    return Err("poll_next returned Pending without the transport having been polled to Pending (no wake-up registered)".into());
                }
                if out.pendings > n_pending {
                    return Err("more Pending results from poll_next than the transport produced".into());
                }
            }
            Poll::Ready(None) => {
                out.ended = true;
                break;
            }
            Poll::Ready(Some(r)) => out.items.push(obs_of::<C>(r)),
        }
    }
    if !out.ended {
        return Err(format!("stream did not end within {fuel} polls ({} items so far)", out.items.len()));
    }
    Ok(out)
}

/// For one stream: bytes handed over in the read buffer instead of by reads (every split point),
/// and every conversion after every number of frames - the frames must not change.
fn check_variants<C: Subject>(codec: &C, data: &[u8], chunks: &[Step]) -> (u64, Option<Violation>) {
    if !C::FRAMES_INDEPENDENT_OF_ARRIVAL {
        return (0, None);
    }
    let want = reference(codec, data, true);
    let mut runs = 0u64;
    if chunks.len() <= 1 {
        for k in 1..=data.len() {
            runs += 1;
            let rest: Vec<Step> = if k < data.len() { vec![Step::Data(data[k..].to_vec())] } else { vec![] };
            let got = mcutil::quiet_catch(|| drive_with(codec, &rest, &data[..k], None));
            if !matches!(&got, Ok(Ok(g)) if g.items == want) {
                return (runs, Some(Violation {
                    signature: format!("{}:frames-differ:bytes-handed-over-in-the-read-buffer", C::NAME),
                    summary: format!("stream {:?}: first {k} byte(s) already in the read buffer (FramedParts::with_read_buf), the rest read: items {:?}, whole-buffer decoding gives {:?}", data, got.map(|r| r.map(|g| g.items)).map_err(|_| "panic"), want),
                    replay: json!({"codec": C::NAME, "variant": "prebuffered", "data": data, "prebuffered": k}),
                }));
            }
        }
    }
    for after in 0..=want.len() {
        for kind in CONVS {
            runs += 1;
            let got = mcutil::quiet_catch(|| drive_with(codec, chunks, &[], Some((after, kind))));
            if !matches!(&got, Ok(Ok(g)) if g.items == want) {
                return (runs, Some(Violation {
                    signature: format!("{}:frames-differ:after-a-conversion-of-the-framed", C::NAME),
                    summary: format!("stream {:?} read as {:?}: {:?} applied after {after} frame(s): items {:?}, whole-buffer decoding gives {:?}", data, show_script(chunks), kind, got.map(|r| r.map(|g| g.items)).map_err(|_| "panic"), want),
                    replay: json!({"codec": C::NAME, "variant": "conversion", "data": data, "script": show_script(chunks), "after": after, "conv": format!("{:?}", kind)}),
                }));
            }
        }
    }
    (runs, None)
}

fn show_script(s: &[Step]) -> Value {
    Value::Array(
        s.iter()
            .map(|s| match s {
                Step::Data(d) => json!({"data": d}),
                Step::Pending => json!("pending"),
                Step::Err => json!("io-error"),
            })
            .collect(),
    )
}

fn script_from(v: &Value) -> Vec<Step> {
    v.as_array()
        .unwrap()
        .iter()
        .map(|s| match s.as_str() {
            Some("pending") => Step::Pending,
            Some(_) => Step::Err,
            None => Step::Data(s["data"].as_array().unwrap().iter().map(|b| b.as_u64().unwrap() as u8).collect()),
        })
        .collect()
}

/// Checks one script. Returns (violation?, was_nontrivial)
fn check<C: Subject>(codec: &C, script: &[Step]) -> Option<Violation> {
    let data: Vec<u8> = script.iter().flat_map(|s| if let Step::Data(d) = s { d.clone() } else { vec![] }).collect();
    let mk = |sig: &str, msg: String| {
        Some(Violation {
            signature: format!("{}:{}", C::NAME, sig),
            summary: msg,
            replay: json!({"codec": C::NAME, "script": show_script(script)}),
        })
    };
    let got = match mcutil::quiet_catch(|| drive(codec, script)) {
        Ok(Ok(g)) => g,
        Ok(Err(e)) => return mk("hang-or-spurious-pending", e),
        Err(p) => return mk("panic", mcutil::panic_message(&*p)),
    };
    let err_pos = script.iter().position(|s| *s == Step::Err);
    if C::FRAMES_INDEPENDENT_OF_ARRIVAL {
        let mut want = reference(codec, &data, true);
        if let Some(p) = err_pos {
            let before: Vec<u8> = script[..p].iter().flat_map(|s| if let Step::Data(d) = s { d.clone() } else { vec![] }).collect();
            let k = reference(codec, &before, false).len();
            want.insert(k, Obs::IoErr);
        }
        if got.items != want {
            let sig = if got.items.len() < want.len() {
                "frames-lost"
            } else if got.items.len() > want.len() {
                "frames-duplicated-or-extra"
            } else {
                "frames-differ"
            };
            return mk(sig, format!("items {:?} but whole-buffer decoding gives {:?}", got.items, want));
        }
    } else {
        // BytesCodec: frames are the arrival pattern; concatenation, order and non-emptiness
        let mut cat = vec![];
        let mut io_errs = 0;
        for it in &got.items {
            match it {
                Obs::Item(_, b) => {
                    if b.is_empty() {
                        return mk("empty-frame", "BytesCodec produced an empty frame".into());
                    }
                    cat.extend_from_slice(b)
                }
                Obs::IoErr => {
                    io_errs += 1;
                    let before: Vec<u8> = script[..err_pos.unwrap_or(0)].iter().flat_map(|s| if let Step::Data(d) = s { d.clone() } else { vec![] }).collect();
                    if cat != before {
                        return mk("io-error-position", "I/O error item is not placed after exactly the bytes delivered before it".into());
                    }
                }
                Obs::DecodeErr => return mk("unexpected-decode-error", "decode error from BytesCodec".into()),
            }
        }
        if cat != data {
            return mk("bytes-lost-or-reordered", format!("concatenated frames {:?} != stream {:?}", cat, data));
        }
        if io_errs != err_pos.iter().count() {
            return mk("io-error-not-surfaced", "injected I/O error not surfaced exactly once".into());
        }
    }
    None
}

struct Stats {
    variant_runs: u64,
    polls: u64,
    runs: u64,
    nontrivial: u64,
    vios: Vec<Violation>,
}

fn enumerate_small<C: Subject>(codec: &C, n: usize, max_pending: usize, threads: usize, rep: &mut Report) -> (u64, u64) {
    let mut polls = 0u64;
    let alpha = C::alphabet();
    let base = alpha.len();
    // work items: (len, first symbol)
    let mut work = vec![];
    for len in (0..=n).rev() {
        if len == 0 {
            work.push((0usize, None));
        } else {
            for a in 0..base {
                work.push((len, Some(a)));
            }
        }
    }
    let parts = mcutil::par_map(threads, &work, |_, (len, first)| {
        let mut st = Stats { polls: 0, runs: 0, nontrivial: 0, variant_runs: 0, vios: vec![] };
        let comps = mcutil::compositions(*len);
        let free = if first.is_some() { len - 1 } else { 0 };
        mcutil::for_each_seq(base, free, |seq| {
            let mut data = Vec::with_capacity(*len);
            if let Some(f) = first {
                data.push(alpha[*f]);
            }
            data.extend(seq.iter().map(|i| alpha[*i]));
            let ref_items = reference(codec, &data, true);
            for comp in &comps {
                let mut chunks: Vec<Step> = vec![];
                let mut off = 0;
                for c in comp {
                    chunks.push(Step::Data(data[off..off + c].to_vec()));
                    off += c;
                }
                if chunks.len() <= 2 {
                    let (r, v) = check_variants(codec, &data, &chunks);
                    st.runs += r;
                    st.variant_runs += r;
                    if let Some(v) = v {
                        if !st.vios.iter().any(|x| x.signature == v.signature) {
                            st.vios.push(v);
                        } else {
                            st.vios.push(Violation { replay: Value::Null, ..v });
                        }
                    }
                }
                let reads = chunks.len() + 1; // + the EOF read
                // pending placements: subsets of read positions of size <= max_pending; error: none or one position
                let mut subsets: Vec<Vec<usize>> = vec![vec![]];
                if max_pending >= 1 {
                    for a in 0..reads {
                        subsets.push(vec![a]);
                        if max_pending >= 2 {
                            for b in a..reads {
                                subsets.push(vec![a, b]); // a == b: two Pendings before the same read
                                if max_pending >= 3 {
                                    for c in b..reads {
                                        subsets.push(vec![a, b, c]);
                                    }
                                }
                            }
                        }
                    }
                }
                for pend in &subsets {
                    for err in std::iter::once(None).chain((0..reads).map(Some)) {
                        if err.is_some() && pend.len() > 1 {
                            continue; // error combined with at most one Pending
                        }
                        let mut script = vec![];
                        for r in 0..reads {
                            for _ in pend.iter().filter(|p| **p == r) {
                                script.push(Step::Pending);
                            }
                            if err == Some(r) {
                                script.push(Step::Err);
                            }
                            if r < chunks.len() {
                                script.push(chunks[r].clone());
                            }
                        }
                        st.runs += 1;
                        st.polls += (ref_items.len() + script.len() + 1) as u64;
                        if ref_items.len() >= 2 || ref_items.iter().any(|o| *o == Obs::DecodeErr) || err.is_some() {
                            st.nontrivial += 1;
                        }
                        if let Some(v) = check(codec, &script) {
                            if !st.vios.iter().any(|x| x.signature == v.signature) {
                                st.vios.push(v);
                            } else {
                                st.vios.push(Violation { replay: Value::Null, ..v });
                            }
                        }
                    }
                }
            }
        });
        st
    });
    let mut runs = 0;
    let mut nontrivial = 0;
    let mut variant_runs = 0;
    for st in parts {
        variant_runs += st.variant_runs;
        runs += st.runs;
        polls += st.polls;
        nontrivial += st.nontrivial;
        for v in st.vios {
            if v.replay.is_null() {
                rep.violation(Violation { replay: json!({"note": "elided"}), ..v });
            } else {
                rep.violation(v);
            }
        }
    }
    rep.add("transitions", polls);
    rep.add("runs_with_prebuffered_bytes_or_a_conversion", variant_runs);
    (runs, nontrivial)
}

/// Deterministic long stream content for a codec (frames of varying length).
fn long_stream<C: Subject>(size: usize) -> Vec<u8> {
    let mut out = Vec::with_capacity(size);
    let mut x: u32 = 0x2545F491 ^ size as u32;
    let mut next = || {
        x ^= x << 13;
        x ^= x >> 17;
        x ^= x << 5;
        x
    };
    match C::NAME {
        "LenPrefixed" => {
            while out.len() < size {
                let n = (next() % 200) as usize;
                let n = n.min(size - out.len() - 1).min(0xED);
                out.push(n as u8);
                for _ in 0..n {
                    out.push((next() % 251) as u8);
                }
            }
        }
        _ => {
            while out.len() < size {
                let r = next();
                let b = match r % 17 {
                    0 => b'\n',
                    1 => b'\r',
                    2 if C::NAME == "LinesCodec" && r % 5 == 0 => 0xFF,
                    _ => b'a' + (r % 23) as u8,
                };
                out.push(b);
            }
        }
    }
    out.truncate(size);
    out
}

fn long_runs<C: Subject>(codec: &C, rep: &mut Report) -> (u64, u64) {
    let sizes = [1023usize, 1024, 1025, 2049, 8191, 8192, 8193, 16385, 70001];
    let chunkings: [usize; 8] = [1, 7, 1000, 1023, 1024, 1025, 8192, usize::MAX];
    let mut runs = 0;
    let mut nontrivial = 0;
    for size in sizes {
        let data = long_stream::<C>(size);
        for ch in chunkings {
            for variant in 0..3 {
                // variant 0: plain; 1: Pending before every 3rd read; 2: one I/O error in the middle
                let mut script = vec![];
                let mut off = 0;
                let mut r = 0;
                while off < data.len() {
                    let n = ch.min(data.len() - off);
                    if variant == 1 && r % 3 == 0 {
                        script.push(Step::Pending);
                    }
                    if variant == 2 && off <= data.len() / 2 && off + n > data.len() / 2 {
                        script.push(Step::Err);
                    }
                    script.push(Step::Data(data[off..off + n].to_vec()));
                    off += n;
                    r += 1;
                }
                if ch == 1 && size > 20000 {
                    continue;
                }
                runs += 1;
                nontrivial += 1;
                if let Some(mut v) = check(codec, &script) {
                    v.signature = format!("{}:long", v.signature);
                    v.replay = json!({"codec": C::NAME, "long": {"size": size, "chunk": if ch == usize::MAX { 0 } else { ch }, "variant": variant}});
                    v.summary.truncate(400);
                    rep.violation(v);
                }
            }
        }
    }
    (runs, nontrivial)
}

/// LinesCodec streams containing one frame longer than the buffer marks.
fn long_frame_runs(rep: &mut Report) -> (u64, u64) {
    let codec = LinesCodec::default();
    let mut runs = 0;
    for big in [1023usize, 1024, 1025, 8191, 8192, 8193, 9000, 16384, 20000, 70000] {
        let mut data = b"short line\r\n".to_vec();
        data.extend(std::iter::repeat(b'x').take(big));
        data.extend_from_slice(b"\nnext\nlast line without newline");
        for ch in [1usize, 100, 1000, 1024, 4096, 8192, usize::MAX] {
            if ch == 1 && big > 20000 {
                continue;
            }
            for variant in 0..3 {
                let mut script = vec![];
                let mut off = 0;
                let mut r = 0;
                while off < data.len() {
                    let n = ch.min(data.len() - off);
                    if variant == 1 && r % 2 == 1 {
                        script.push(Step::Pending);
                    }
                    if variant == 2 && off <= big && off + n > big {
                        script.push(Step::Err);
                    }
                    script.push(Step::Data(data[off..off + n].to_vec()));
                    off += n;
                    r += 1;
                }
                runs += 1;
                if let Some(mut v) = check(&codec, &script) {
                    v.signature = format!("{}:long-frame", v.signature);
                    v.replay = json!({"codec": "LinesCodec", "long_frame": {"frame_len": big, "chunk": if ch == usize::MAX { 0 } else { ch }, "variant": variant}});
                    v.summary = format!("stream with one {big}-byte line, chunk size {ch}, variant {variant}: {}", &v.summary[..v.summary.len().min(120)]);
                    rep.violation(v);
                }
            }
        }
    }
    (runs, runs)
}

fn replay_one<C: Subject>(codec: &C, r: &Value, rep: &mut Report) {
    if r.get("long_frame").is_some() {
        println!("long-frame case {}: re-run by the normal check (deterministic)", r["long_frame"]);
        long_frame_runs(rep);
        return;
    }
    if let Some(l) = r.get("long") {
        println!("long-stream case {l}: re-run by the normal check (deterministic)");
        long_runs(codec, rep);
        return;
    }
    if let Some(variant) = r.get("variant") {
        let data: Vec<u8> = r["data"].as_array().unwrap().iter().map(|b| b.as_u64().unwrap() as u8).collect();
        let chunks = if variant == "conversion" { script_from(&r["script"]) } else { vec![Step::Data(data.clone())] };
        let (_, v) = check_variants(codec, &data, &chunks);
        println!("replay verdict: {}", if v.is_some() { "violates" } else { "holds" });
        if let Some(v) = v {
            println!("{}", v.summary);
            rep.violation(v);
        }
        return;
    }
    let script = script_from(&r["script"]);
    println!("script {:?}", script);
    match drive(codec, &script) {
        Ok(o) => println!("items {:?} pendings {}", o.items, o.pendings),
        Err(e) => println!("drive error: {e}"),
    }
    let v = check(codec, &script);
    println!("replay verdict: {}", if v.is_some() { "violates" } else { "holds" });
    if let Some(v) = v {
        rep.violation(v);
    }
}

pub fn run(args: &Args) -> i32 {
    let mut rep = Report::new(args, "model_checking");
    if let Some(p) = &args.replay {
        let r = mcutil::load_replay(p);
        match r["codec"].as_str() {
            Some("LinesCodec") => replay_one(&LinesCodec::default(), &r, &mut rep),
            Some("BytesCodec") => replay_one(&BytesCodec, &r, &mut rep),
            _ => replay_one(&LenPrefixed::default(), &r, &mut rep),
        }
        return rep.finish();
    }
    let n = args.opt_usize("len", args.tier.pick(5, 7));
    let p = args.opt_usize("pending", args.tier.pick(2, 2));
    let mut total = 0;
    let mut nontrivial = 0;
    let (a, b) = enumerate_small(&LinesCodec::default(), n, p, args.threads, &mut rep);
    rep.set("lines_runs", a);
    total += a;
    nontrivial += b;
    let (a, b) = enumerate_small(&LenPrefixed::default(), n, p, args.threads, &mut rep);
    rep.set("lenprefixed_runs", a);
    total += a;
    nontrivial += b;
    let (a, b) = enumerate_small(&BytesCodec, n.min(5), p, args.threads, &mut rep);
    rep.set("bytes_runs", a);
    total += a;
    nontrivial += b;
    if args.tier == mcutil::Tier::Thorough {
        // all Pending placements (up to 3 incl. repeated) on shorter strings
        let (a, b) = enumerate_small(&LinesCodec::default(), 5, 3, args.threads, &mut rep);
        rep.set("lines_runs_pending3", a);
        total += a;
        nontrivial += b;
        let (a, b) = enumerate_small(&LenPrefixed::default(), 5, 3, args.threads, &mut rep);
        rep.set("lenprefixed_runs_pending3", a);
        total += a;
        nontrivial += b;
    }
    let mut long_total = 0;
    for (r, nt) in [long_runs(&LinesCodec::default(), &mut rep), long_runs(&LenPrefixed::default(), &mut rep), long_runs(&BytesCodec, &mut rep)] {
        long_total += r;
        nontrivial += nt;
    }
    let (lf, lfn) = long_frame_runs(&mut rep);
    long_total += lf;
    nontrivial += lfn;
    rep.set("long_frame_runs", lf);
    rep.set("long_stream_runs", long_total);
    total += long_total;
    rep.sample(json!({"codec": "LinesCodec", "script": [{"data": "a\\r"}, "pending", {"data": "\\na"}, "io-error", {"data": "\\xff\\n"}], "expected_items": ["a", "<io error>", "<InvalidData>"]}));
    rep.sample(json!({"codec": "LenPrefixed", "script": [{"data": [2, 120]}, {"data": [0, 1]}], "expected_items": ["Full([120,0])", "Partial([1])"]}));
    let tr = rep.get_u64("transitions");
    rep.set("states", tr + total);
    rep.set("traces_validated_against_impl", total);
    rep.set("evaluations", total);
    rep.set("distinct_nontrivial", nontrivial);
    rep.set("max_len", n);
    rep.set("max_pending", p);
    rep.set("rule", format!("scripts = (byte string of length <= {n} over the codec's alphabet: Lines {{a,CR,LF,FF}}, LenPrefixed {{0,1,2,'x',EE}}, Bytes {{a,b,LF}}, len<=5) x (all compositions into read chunks) x (all multisets of <= {p} Pending placements over the read positions incl. the EOF read) x (no error | one I/O error at any read position, with <= 1 Pending); each driven through the real Framed::poll_next on a scripted AsyncRead until None; plus long deterministic streams of sizes 1023..70001 in 8 chunkings x 3 variants. Scripts are distinct by construction; non-trivial = whole-buffer decoding yields >= 2 items or a decode error, or an I/O error is injected."));
    rep.set("exhaustive", true);
    rep.assume("the codec run over the whole buffer is the reference (differential oracle); LenPrefixed is a test codec written for this check");
    rep.assume("the quantifier's 'long random streams' are replaced by deterministic xorshift streams of boundary sizes (DESIGN §13)");
    rep.finish()
}
