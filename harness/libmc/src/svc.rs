//! C11 / C12: service combinators against a pure reference interpreter.
//!
//! Service trees and factory trees are built dynamically from the real combinators
//! (`and_then`, `map`, `map_err`, `apply_fn`, `boxed::service`, `boxed::rc_service`, `Rc`,
//! `RefCell`, `&`, `&mut`, `Box`; factories: `fn_factory_with_config`, `fn_factory`,
//! `fn_service`, `and_then`, `map`, `map_err`, `map_init_err`, `map_config`, `unit_config`,
//! `apply_cfg`, `apply_cfg_factory`, `apply_fn_factory`, `apply(Transform)`,
//! `boxed::factory`, `Rc`) over scripted leaves that log every interaction.
//!
//! C11 compares results and call logs with the interpreter. C12 drives with a fresh waker
//! per poll and checks the readiness rules, that every pending inner was polled with the
//! current waker whenever the combinator reports Pending, and that nothing is polled after
//! completion.

use std::{
    cell::{Cell, RefCell},
    collections::BTreeMap,
    future::Future,
    pin::Pin,
    rc::Rc,
    task::{Context, Poll, Waker},
};

use actix_service::{
    apply, apply_cfg, apply_cfg_factory, apply_fn, apply_fn_factory,
    boxed::{self, BoxService, BoxServiceFactory},
    fn_factory, fn_factory_with_config, fn_service, map_config, unit_config, Service, ServiceExt, ServiceFactory,
    ServiceFactoryExt, Transform,
};
use mcutil::{json, Args, CountWaker, Report, Tier, Value, Violation};

type Svc = BoxService<u64, u64, u64>;
type Fac = BoxServiceFactory<u64, u64, u64, u64, u64>;

fn tagv(x: u64, tag: u64) -> u64 {
    x.wrapping_mul(64).wrapping_add(tag)
}

// ---------------------------------------------------------------------------------------
// scripts, log, environment
// ---------------------------------------------------------------------------------------

#[derive(Clone, Copy, Debug, Default, PartialEq, Eq)]
pub struct Script {
    ready_pend: u8,
    ready_err: bool,
    call_pend: u8,
    call_err: bool,
    /// after the first Ready(Ok): 0 = stays ready, 1 = answers Pending once more, 2 = answers
    /// Err once (readiness may regress between two polls without a call in between)
    regress: u8,
}

/// Readiness state of a scripted leaf; `leaf_ready_step` is shared by the real leaf and the
/// reference interpreter.
#[derive(Clone, Copy, Debug, Default, PartialEq, Eq)]
struct LeafReady {
    pendings: u8,
    err_reported: bool,
    /// 0 = never answered Ready(Ok), 1 = answered it, 2 = regression delivered
    stage: u8,
}

fn leaf_ready_step(s: Script, st: &mut LeafReady, leaf: usize) -> R {
    if st.pendings < s.ready_pend {
        st.pendings += 1;
        return R::Pend;
    }
    if s.ready_err && !st.err_reported {
        st.err_reported = true;
        return R::Err(ready_err_code(leaf));
    }
    if s.regress != 0 && st.stage == 1 {
        st.stage = 2;
        return if s.regress == 1 { R::Pend } else { R::Err(ready_err_code(leaf) + 500) };
    }
    if st.stage == 0 {
        st.stage = 1;
    }
    R::Ok(0)
}

#[derive(Clone, Copy, Debug, Default, PartialEq, Eq)]
pub struct FScript {
    pend: u8,
    err: bool,
}

#[derive(Clone, Copy, Debug, PartialEq, Eq)]
enum R {
    Pend,
    Ok(u64),
    Err(u64),
}

#[derive(Clone, Debug, PartialEq, Eq)]
enum Ev {
    Ready { leaf: usize, round: u32, res: R },
    Call { leaf: usize, req: u64 },
    Poll { leaf: usize, round: u32, res: R },
    PollAfterDone { what: &'static str, id: usize },
    New { id: usize, cfg: u64 },
    FPoll { id: usize, round: u32, res: R },
}

#[derive(Clone, Copy, Debug, PartialEq, Eq, PartialOrd, Ord)]
enum Key {
    Ready(usize),
    Fut(usize, u32),
    FFut(usize, u32),
}

struct Env {
    scripts: Vec<Script>,
    fscripts: Vec<FScript>,
    log: RefCell<Vec<Ev>>,
    round: Cell<u32>,
    /// entities whose most recent answer was Pending: stored waker and the round of that answer
    pending: RefCell<BTreeMap<Key, (Waker, u32)>>,
    ready_state: RefCell<BTreeMap<usize, LeafReady>>,
    calls: RefCell<BTreeMap<usize, u32>>,
    /// leaves whose response also carries the ordinal of the call (k-th request they received)
    order_sensitive: RefCell<std::collections::BTreeSet<usize>>,
    news: RefCell<BTreeMap<usize, u32>>,
    /// owners of the values behind the `&'static` / `&'static mut` services of `Ref`/`RefMut`
    /// nodes; freed by `Env::free` after the service that borrows them has been dropped
    graveyard: RefCell<Vec<Box<dyn FnOnce()>>>,
}

impl Env {
    fn new(scripts: Vec<Script>, fscripts: Vec<FScript>) -> Rc<Env> {
        Rc::new(Env {
            scripts,
            fscripts,
            log: RefCell::new(vec![]),
            round: Cell::new(0),
            pending: RefCell::new(BTreeMap::new()),
            ready_state: RefCell::new(BTreeMap::new()),
            calls: RefCell::new(BTreeMap::new()),
            order_sensitive: RefCell::new(Default::default()),
            news: RefCell::new(BTreeMap::new()),
            graveyard: RefCell::new(vec![]),
        })
    }
    /// Gives out a `'static` borrow of a heap value that lives until `free`.
    fn lend<S: 'static>(&self, s: S) -> *mut S {
        let p = Box::into_raw(Box::new(s));
        self.graveyard.borrow_mut().push(Box::new(move || unsafe { drop(Box::from_raw(p)) }));
        p
    }
    /// Must be called after every service built from this Env has been dropped.
    fn free(&self) {
        let g: Vec<_> = self.graveyard.borrow_mut().drain(..).collect();
        for f in g.into_iter().rev() {
            f();
        }
        self.pending.borrow_mut().clear();
    }
    fn script(&self, leaf: usize) -> Script {
        self.scripts.get(leaf).copied().unwrap_or_default()
    }
    fn fscript(&self, id: usize) -> FScript {
        self.fscripts.get(id).copied().unwrap_or_default()
    }
    fn ev(&self, e: Ev) {
        self.log.borrow_mut().push(e);
    }
    fn park(&self, k: Key, cx: &Context<'_>) {
        self.pending.borrow_mut().insert(k, (cx.waker().clone(), self.round.get()));
    }
    fn unpark(&self, k: Key) {
        self.pending.borrow_mut().remove(&k);
    }
}

fn ready_err_code(leaf: usize) -> u64 {
    7000 + leaf as u64
}
fn init_err_code(id: usize) -> u64 {
    9000 + id as u64
}

// ---------------------------------------------------------------------------------------
// scripted leaf service
// ---------------------------------------------------------------------------------------

#[derive(Clone)]
struct LeafSvc {
    leaf: usize,
    env: Rc<Env>,
}

impl Service<u64> for LeafSvc {
    type Response = u64;
    type Error = u64;
    type Future = LeafFut;

    fn poll_ready(&self, cx: &mut Context<'_>) -> Poll<Result<(), u64>> {
        let s = self.env.script(self.leaf);
        let round = self.env.round.get();
        let res = {
            let mut st = self.env.ready_state.borrow_mut();
            leaf_ready_step(s, st.entry(self.leaf).or_default(), self.leaf)
        };
        self.env.ev(Ev::Ready { leaf: self.leaf, round, res });
        match res {
            R::Pend => {
                self.env.park(Key::Ready(self.leaf), cx);
                Poll::Pending
            }
            R::Err(e) => {
                self.env.unpark(Key::Ready(self.leaf));
                Poll::Ready(Err(e))
            }
            R::Ok(_) => {
                self.env.unpark(Key::Ready(self.leaf));
                Poll::Ready(Ok(()))
            }
        }
    }

    fn call(&self, req: u64) -> LeafFut {
        self.env.ev(Ev::Call { leaf: self.leaf, req });
        let mut calls = self.env.calls.borrow_mut();
        let inst = calls.entry(self.leaf).or_insert(0);
        *inst += 1;
        LeafFut { leaf: self.leaf, inst: *inst, req, polls: 0, done: false, env: self.env.clone() }
    }
}

struct LeafFut {
    leaf: usize,
    inst: u32,
    req: u64,
    polls: u8,
    done: bool,
    env: Rc<Env>,
}

fn leaf_value(leaf: usize, req: u64) -> u64 {
    tagv(req, leaf as u64 + 1)
}

/// Response of an order-sensitive leaf to the `inst`-th request it was handed.
fn leaf_value_inst(leaf: usize, req: u64, inst: Option<u32>) -> u64 {
    match inst {
        Some(i) => tagv(leaf_value(leaf, req), 40 + i as u64),
        None => leaf_value(leaf, req),
    }
}

impl Future for LeafFut {
    type Output = Result<u64, u64>;
    fn poll(mut self: Pin<&mut Self>, cx: &mut Context<'_>) -> Poll<Self::Output> {
        let s = self.env.script(self.leaf);
        let round = self.env.round.get();
        if self.done {
            self.env.ev(Ev::PollAfterDone { what: "service future", id: self.leaf });
            panic!("leaf future polled after completion");
        }
        let key = Key::Fut(self.leaf, self.inst);
        if self.polls < s.call_pend {
            self.polls += 1;
            self.env.park(key, cx);
            self.env.ev(Ev::Poll { leaf: self.leaf, round, res: R::Pend });
            return Poll::Pending;
        }
        self.env.unpark(key);
        self.done = true;
        let sensitive = self.env.order_sensitive.borrow().contains(&self.leaf);
        let v = leaf_value_inst(self.leaf, self.req, sensitive.then_some(self.inst));
        if s.call_err {
            self.env.ev(Ev::Poll { leaf: self.leaf, round, res: R::Err(v) });
            Poll::Ready(Err(v))
        } else {
            self.env.ev(Ev::Poll { leaf: self.leaf, round, res: R::Ok(v) });
            Poll::Ready(Ok(v))
        }
    }
}

impl Drop for LeafFut {
    fn drop(&mut self) {
        self.env.unpark(Key::Fut(self.leaf, self.inst));
    }
}

// ---------------------------------------------------------------------------------------
// service trees
// ---------------------------------------------------------------------------------------

#[derive(Clone, Debug, PartialEq, Eq)]
pub enum T {
    Leaf(usize),
    AndThen(Box<T>, Box<T>),
    Map(Box<T>, u64),
    MapErr(Box<T>, u64),
    ApplyFn(Box<T>, u64),
    Boxed(Box<T>),
    RcSvc(Box<T>),
    Rc(Box<T>),
    RefCell(Box<T>),
    Ref(Box<T>),
    RefMut(Box<T>),
    BoxS(Box<T>),
}

const UNARY: [&str; 10] = ["map", "map_err", "apply_fn", "boxed", "rc_service", "rc", "refcell", "ref", "ref_mut", "box"];

fn unary(kind: &str, t: T, tag: u64) -> T {
    let b = Box::new(t);
    match kind {
        "map" => T::Map(b, tag),
        "map_err" => T::MapErr(b, tag),
        "apply_fn" => T::ApplyFn(b, tag),
        "boxed" => T::Boxed(b),
        "rc_service" => T::RcSvc(b),
        "rc" => T::Rc(b),
        "refcell" => T::RefCell(b),
        "ref" => T::Ref(b),
        "ref_mut" => T::RefMut(b),
        "box" => T::BoxS(b),
        _ => unreachable!(),
    }
}

impl T {
    fn to_json(&self) -> Value {
        match self {
            T::Leaf(i) => json!({"leaf": i}),
            T::AndThen(a, b) => json!({"and_then": [a.to_json(), b.to_json()]}),
            T::Map(t, g) => json!({"map": [t.to_json(), g]}),
            T::MapErr(t, g) => json!({"map_err": [t.to_json(), g]}),
            T::ApplyFn(t, g) => json!({"apply_fn": [t.to_json(), g]}),
            T::Boxed(t) => json!({"boxed": [t.to_json()]}),
            T::RcSvc(t) => json!({"rc_service": [t.to_json()]}),
            T::Rc(t) => json!({"rc": [t.to_json()]}),
            T::RefCell(t) => json!({"refcell": [t.to_json()]}),
            T::Ref(t) => json!({"ref": [t.to_json()]}),
            T::RefMut(t) => json!({"ref_mut": [t.to_json()]}),
            T::BoxS(t) => json!({"box": [t.to_json()]}),
        }
    }
    fn from_json(v: &Value) -> T {
        let (k, a) = v.as_object().unwrap().iter().next().unwrap();
        if k == "leaf" {
            return T::Leaf(a.as_u64().unwrap() as usize);
        }
        let arr = a.as_array().unwrap();
        if k == "and_then" {
            return T::AndThen(Box::new(T::from_json(&arr[0])), Box::new(T::from_json(&arr[1])));
        }
        let tag = arr.get(1).and_then(|t| t.as_u64()).unwrap_or(0);
        unary(k, T::from_json(&arr[0]), tag)
    }
    fn leaves(&self, out: &mut Vec<usize>) {
        match self {
            T::Leaf(i) => out.push(*i),
            T::AndThen(a, b) => {
                a.leaves(out);
                b.leaves(out);
            }
            T::Map(t, _) | T::MapErr(t, _) | T::ApplyFn(t, _) | T::Boxed(t) | T::RcSvc(t) | T::Rc(t) | T::RefCell(t) | T::Ref(t) | T::RefMut(t) | T::BoxS(t) => t.leaves(out),
        }
    }
    /// the leaf that receives the request when the combined service is called
    fn first_stage_leaf(&self) -> usize {
        match self {
            T::Leaf(i) => *i,
            T::AndThen(a, _) => a.first_stage_leaf(),
            T::Map(t, _) | T::MapErr(t, _) | T::ApplyFn(t, _) | T::Boxed(t) | T::RcSvc(t) | T::Rc(t) | T::RefCell(t) | T::Ref(t) | T::RefMut(t) | T::BoxS(t) => t.first_stage_leaf(),
        }
    }
    /// readiness error of `leaf` as seen at the root (mapped by the map_err nodes on the path)
    fn map_ready_err(&self, leaf: usize, e: u64) -> Option<u64> {
        match self {
            T::Leaf(i) => (*i == leaf).then_some(e),
            T::AndThen(a, b) => a.map_ready_err(leaf, e).or_else(|| b.map_ready_err(leaf, e)),
            T::MapErr(t, g) => t.map_ready_err(leaf, e).map(|x| tagv(x, *g)),
            T::Map(t, _) | T::ApplyFn(t, _) | T::Boxed(t) | T::RcSvc(t) | T::Rc(t) | T::RefCell(t) | T::Ref(t) | T::RefMut(t) | T::BoxS(t) => t.map_ready_err(leaf, e),
        }
    }
}

/// All trees with combinator nesting <= depth; leaf ids and mapper tags assigned in DFS order.
fn shapes(depth: usize, cache: &mut Vec<Vec<T>>) -> Vec<T> {
    if cache.len() > depth {
        return cache[depth].clone();
    }
    let out = if depth == 0 {
        vec![T::Leaf(0)]
    } else {
        let sub = shapes(depth - 1, cache);
        let mut v = vec![T::Leaf(0)];
        for k in UNARY {
            for s in &sub {
                v.push(unary(k, s.clone(), 0));
            }
        }
        for a in &sub {
            for b in &sub {
                v.push(T::AndThen(Box::new(a.clone()), Box::new(b.clone())));
            }
        }
        v
    };
    while cache.len() <= depth {
        cache.push(vec![]);
    }
    cache[depth] = out.clone();
    out
}

fn renumber(t: &T, next_leaf: &mut usize, next_tag: &mut u64) -> T {
    let mut un = |kind: &str, inner: &T, tagged: bool, next_leaf: &mut usize, next_tag: &mut u64| -> T {
        let g = if tagged {
            *next_tag += 1;
            *next_tag
        } else {
            0
        };
        let inner = renumber(inner, next_leaf, next_tag);
        unary(kind, inner, g)
    };
    match t {
        T::Leaf(_) => {
            let l = *next_leaf;
            *next_leaf += 1;
            T::Leaf(l)
        }
        T::AndThen(a, b) => {
            let a = renumber(a, next_leaf, next_tag);
            let b = renumber(b, next_leaf, next_tag);
            T::AndThen(Box::new(a), Box::new(b))
        }
        T::Map(i, _) => un("map", i, true, next_leaf, next_tag),
        T::MapErr(i, _) => un("map_err", i, true, next_leaf, next_tag),
        T::ApplyFn(i, _) => un("apply_fn", i, true, next_leaf, next_tag),
        T::Boxed(i) => un("boxed", i, false, next_leaf, next_tag),
        T::RcSvc(i) => un("rc_service", i, false, next_leaf, next_tag),
        T::Rc(i) => un("rc", i, false, next_leaf, next_tag),
        T::RefCell(i) => un("refcell", i, false, next_leaf, next_tag),
        T::Ref(i) => un("ref", i, false, next_leaf, next_tag),
        T::RefMut(i) => un("ref_mut", i, false, next_leaf, next_tag),
        T::BoxS(i) => un("box", i, false, next_leaf, next_tag),
    }
}

pub fn all_trees(depth: usize) -> Vec<T> {
    let mut cache = vec![];
    shapes(depth, &mut cache)
        .iter()
        .map(|t| {
            let (mut l, mut g) = (0usize, 8u64);
            renumber(t, &mut l, &mut g)
        })
        .collect()
}

// ---------------------------------------------------------------------------------------
// building the real service from a tree
// ---------------------------------------------------------------------------------------

fn apply_pre(req: u64, g: u64) -> u64 {
    req.wrapping_add(1000 * g)
}

fn wrap_unary<S>(kind: &T, s: S, env: &Rc<Env>) -> Svc
where
    S: Service<u64, Response = u64, Error = u64> + 'static,
    S::Future: 'static,
{
    match kind {
        T::Map(_, g) => {
            let g = *g;
            boxed::service(s.map(move |x| tagv(x, g)))
        }
        T::MapErr(_, g) => {
            let g = *g;
            boxed::service(s.map_err(move |e| tagv(e, g)))
        }
        T::ApplyFn(_, g) => {
            let g = *g;
            boxed::service(apply_fn(s, move |req: u64, svc: &S| {
                let fut = svc.call(apply_pre(req, g));
                async move { fut.await.map(|r| tagv(r, g)) }
            }))
        }
        T::Boxed(_) => boxed::service(boxed::service(s)),
        T::RcSvc(_) => boxed::service(boxed::rc_service(s)),
        T::Rc(_) => boxed::service(Rc::new(s)),
        T::RefCell(_) => boxed::service(RefCell::new(s)),
        T::Ref(_) => {
            let lent: &'static S = unsafe { &*env.lend(s) };
            boxed::service(lent)
        }
        T::RefMut(_) => {
            let lent: &'static mut S = unsafe { &mut *env.lend(s) };
            boxed::service(lent)
        }
        T::BoxS(_) => boxed::service(Box::new(s)),
        T::Leaf(_) | T::AndThen(..) => unreachable!(),
    }
}

fn build(t: &T, env: &Rc<Env>) -> Svc {
    let leaf = |i: usize| LeafSvc { leaf: i, env: env.clone() };
    match t {
        T::Leaf(i) => boxed::service(leaf(*i)),
        // children that are leaves are composed unboxed (static dispatch on the leaf type)
        T::AndThen(a, b) => match (&**a, &**b) {
            (T::Leaf(x), T::Leaf(y)) => boxed::service(leaf(*x).and_then(leaf(*y))),
            (T::Leaf(x), _) => boxed::service(leaf(*x).and_then(build(b, env))),
            (_, T::Leaf(y)) => boxed::service(build(a, env).and_then(leaf(*y))),
            _ => boxed::service(build(a, env).and_then(build(b, env))),
        },
        T::Map(i, _) | T::MapErr(i, _) | T::ApplyFn(i, _) | T::Boxed(i) | T::RcSvc(i) | T::Rc(i) | T::RefCell(i) | T::Ref(i) | T::RefMut(i) | T::BoxS(i) => match &**i {
            T::Leaf(x) => wrap_unary(t, leaf(*x), env),
            // one more statically typed level: and_then of two leaves under a unary node
            T::AndThen(a, b) if matches!((&**a, &**b), (T::Leaf(_), T::Leaf(_))) => {
                let (T::Leaf(x), T::Leaf(y)) = (&**a, &**b) else { unreachable!() };
                wrap_unary(t, leaf(*x).and_then(leaf(*y)), env)
            }
            _ => wrap_unary(t, build(i, env), env),
        },
    }
}

// ---------------------------------------------------------------------------------------
// reference interpreter (services)
// ---------------------------------------------------------------------------------------

/// Result of the documented composition plus the expected sequence of leaf calls and leaf
/// completions, in order.
fn eval(t: &T, req: u64, scripts: &dyn Fn(usize) -> Script, trace: &mut Vec<Ev>) -> Result<u64, u64> {
    eval_inst(t, req, scripts, &|_| None, trace)
}

/// `inst(leaf)`: for an order-sensitive leaf, the ordinal of this request among those handed to it.
fn eval_inst(t: &T, req: u64, scripts: &dyn Fn(usize) -> Script, inst: &dyn Fn(usize) -> Option<u32>, trace: &mut Vec<Ev>) -> Result<u64, u64> {
    let eval = |t: &T, req: u64, scripts: &dyn Fn(usize) -> Script, trace: &mut Vec<Ev>| eval_inst(t, req, scripts, inst, trace);
    match t {
        T::Leaf(i) => {
            trace.push(Ev::Call { leaf: *i, req });
            let v = leaf_value_inst(*i, req, inst(*i));
            let r = if scripts(*i).call_err { Err(v) } else { Ok(v) };
            trace.push(Ev::Poll { leaf: *i, round: 0, res: match r { Ok(v) => R::Ok(v), Err(v) => R::Err(v) } });
            r
        }
        T::AndThen(a, b) => {
            let x = eval(a, req, scripts, trace)?;
            eval(b, x, scripts, trace)
        }
        T::Map(i, g) => eval(i, req, scripts, trace).map(|x| tagv(x, *g)),
        T::MapErr(i, g) => eval(i, req, scripts, trace).map_err(|e| tagv(e, *g)),
        T::ApplyFn(i, g) => eval(i, apply_pre(req, *g), scripts, trace).map(|x| tagv(x, *g)),
        T::Boxed(i) | T::RcSvc(i) | T::Rc(i) | T::RefCell(i) | T::Ref(i) | T::RefMut(i) | T::BoxS(i) => eval(i, req, scripts, trace),
    }
}

// ---------------------------------------------------------------------------------------
// driver + oracle
// ---------------------------------------------------------------------------------------

type Bad = (String, String);

fn bad(sig: &str, msg: String) -> Bad {
    (sig.to_string(), msg)
}

/// After a combinator reported Pending in round `round` with waker `w`: every inner entity
/// whose latest answer is Pending must have been polled in this round, and its stored waker
/// must be the current one (waking it reaches `w`); at least one inner must be pending.
fn check_pending(env: &Env, round: u32, w: &std::sync::Arc<CountWaker>, what: &str) -> Result<(), Bad> {
    let pend = env.pending.borrow();
    if pend.is_empty() {
        return Err(bad(&format!("{what}:pending-with-no-inner-pending"), format!("{what} returned Pending in round {round} although no inner is pending (nobody will wake the task)")));
    }
    for (k, (waker, r)) in pend.iter() {
        if *r != round {
            return Err(bad(&format!("{what}:pending-inner-not-polled"), format!("{what} returned Pending in round {round} without polling {:?}, which has been pending since round {r}", k)));
        }
        let before = w.count();
        waker.wake_by_ref();
        if w.count() != before + 1 {
            return Err(bad(&format!("{what}:stale-waker"), format!("{what} returned Pending in round {round}; {:?} does not hold the current waker", k)));
        }
    }
    Ok(())
}

fn poll_after_done_unit() -> Result<(), Bad> {
    Ok(())
}

fn poll_after_done(env: &Env) -> Option<Bad> {
    env.log.borrow().iter().find_map(|e| if let Ev::PollAfterDone { what, id } = e { Some(bad("poll-after-completion", format!("{what} {id} was polled again after it completed"))) } else { None })
}

struct Driven {
    /// None: readiness failed (value = the error), so no call was made
    result: Result<Result<u64, u64>, u64>,
    ready_rounds: u32,
    call_rounds: u32,
}

/// Drives one service: poll_ready rounds (fresh waker each) until Ready, then call + poll rounds.
fn drive_service(svc: &Svc, t: &T, env: &Rc<Env>, req: u64, check_c12: bool, check_readiness_composition: bool) -> Result<Driven, Bad> {
    let max_rounds = 4 * 3 + 8;
    let mut ready_rounds = 0;
    let mut leaves = vec![];
    t.leaves(&mut leaves);
    // readiness is asked again after the first Ready(Ok) when a leaf's readiness may regress
    let mut confirmations = if leaves.iter().any(|l| env.script(*l).regress != 0) { 2 } else { 0 };
    loop {
        let round = env.round.get() + 1;
        env.round.set(round);
        ready_rounds += 1;
        let w = CountWaker::new(round as usize);
        let waker = w.waker();
        let mut cx = Context::from_waker(&waker);
        let res = svc.poll_ready(&mut cx);
        if !check_c12 && check_readiness_composition {
            // C11: the answer is the composition of the answers the leaves gave in this very poll
            // (whichever leaves were asked, in whatever order): an error if one of them erred,
            // else Pending if one is pending, else ready - and ready only if all were asked
            let log = env.log.borrow();
            let answers: Vec<(usize, R)> = log.iter().filter_map(|e| match e { Ev::Ready { leaf, round: r, res } if *r == round => Some((*leaf, *res)), _ => None }).collect();
            let got = match &res {
                Poll::Pending => R::Pend,
                Poll::Ready(Ok(())) => R::Ok(0),
                Poll::Ready(Err(e)) => R::Err(*e),
            };
            let errs: Vec<u64> = answers.iter().filter_map(|(l, r)| if let R::Err(e) = r { t.map_ready_err(*l, *e) } else { None }).collect();
            let consistent = if !errs.is_empty() {
                matches!(got, R::Err(e) if errs.contains(&e))
            } else if answers.iter().any(|(_, r)| *r == R::Pend) {
                got == R::Pend
            } else {
                got == R::Ok(0) && leaves.iter().all(|l| answers.iter().any(|(a, _)| a == l))
            };
            if !consistent {
                return Err(bad("readiness:not-the-composition-of-the-leaves-answers", format!("poll_ready number {ready_rounds} of the combined service answered {:?}; the leaves' answers in that poll were {:?} (leaves of the tree: {:?})", got, answers, leaves)));
            }
        }
        // answers given by leaves in this round
        let log = env.log.borrow();
        let this_round: Vec<&Ev> = log.iter().filter(|e| matches!(e, Ev::Ready { round: r, .. } if *r == round)).collect();
        match res {
            Poll::Pending => {
                if check_c12 {
                    // every inner service that is not known to be ready must have been asked in
                    // this round (an inner that was never asked holds no waker at all)
                    for l in &leaves {
                        let last = log.iter().rev().find_map(|e| match e {
                            Ev::Ready { leaf, res, round: r } if leaf == l => Some((*res, *r)),
                            _ => None,
                        });
                        match last {
                            Some((R::Ok(_), _)) => {}
                            Some((_, r)) if r == round => {}
                            Some((_, r)) => return Err(bad("poll_ready:pending-inner-not-polled", format!("poll_ready returned Pending in round {round} without polling leaf {l}, pending since round {r}"))),
                            None => return Err(bad("poll_ready:pending-inner-never-polled", format!("poll_ready returned Pending in round {round} although inner service {l}, which is not known to be ready, was not polled (it holds no waker)"))),
                        }
                    }
                }
                drop(log);
                if check_c12 {
                    check_pending(env, round, &w, "poll_ready")?;
                }
                if ready_rounds > max_rounds {
                    return Err(bad("poll_ready:never-ready", format!("poll_ready still Pending after {ready_rounds} rounds")));
                }
            }
            Poll::Ready(Err(e)) => {
                if check_c12 {
                    let ok = this_round.iter().any(|ev| match ev {
                        Ev::Ready { leaf, res: R::Err(e0), .. } => t.map_ready_err(*leaf, *e0) == Some(e),
                        _ => false,
                    });
                    if !ok {
                        return Err(bad("poll_ready:error-not-from-an-inner-or-wrongly-mapped", format!("poll_ready returned Err({e}) but no inner polled in this round returned the error that maps to it (round events {:?})", this_round)));
                    }
                }
                return Ok(Driven { result: Err(e), ready_rounds, call_rounds: 0 });
            }
            Poll::Ready(Ok(())) => {
                if check_c12 {
                    // every leaf's most recent readiness answer must be Ready(Ok)
                    for l in &leaves {
                        let last = log.iter().rev().find_map(|e| match e {
                            Ev::Ready { leaf, res, .. } if leaf == l => Some(*res),
                            _ => None,
                        });
                        match last {
                            Some(R::Ok(_)) => {}
                            Some(R::Pend) => return Err(bad("poll_ready:ready-while-inner-pending", format!("poll_ready = Ready(Ok) while leaf {l}'s latest answer is Pending"))),
                            Some(R::Err(e)) => return Err(bad("poll_ready:ready-after-inner-error", format!("poll_ready = Ready(Ok) while leaf {l} reported Err({e})"))),
                            None => return Err(bad("poll_ready:ready-without-asking-inner", format!("poll_ready = Ready(Ok) but leaf {l} was never asked"))),
                        }
                        // ... and that answer was given in this very poll: readiness is established
                        // by asking, an earlier answer says nothing about now
                        if !this_round.iter().any(|e| matches!(e, Ev::Ready { leaf, .. } if leaf == l)) {
                            return Err(bad("poll_ready:ready-without-asking-inner-in-this-poll", format!("poll_ready = Ready(Ok) in round {round} without asking leaf {l} in this poll (its last answer is from an earlier one)")));
                        }
                    }
                }
                if confirmations > 0 {
                    confirmations -= 1;
                    drop(log);
                    continue;
                }
                break;
            }
        }
    }
    // call
    let mut fut = svc.call(req);
    let mut call_rounds = 0;
    let result = loop {
        let round = env.round.get() + 1;
        env.round.set(round);
        call_rounds += 1;
        let w = CountWaker::new(round as usize);
        let waker = w.waker();
        let mut cx = Context::from_waker(&waker);
        match fut.as_mut().poll(&mut cx) {
            Poll::Ready(r) => break r,
            Poll::Pending => {
                if check_c12 {
                    check_pending(env, round, &w, "call-future")?;
                }
                if call_rounds > 40 {
                    return Err(bad("call-future:never-completes", "service future still Pending after 40 polls".into()));
                }
            }
        }
    };
    drop(fut);
    Ok(Driven { result: Ok(result), ready_rounds, call_rounds })
}

/// Two requests outstanding at once. The first stage is handed a request when `call` is
/// invoked (that is what the reference composition does), so a first-stage leaf that numbers
/// the requests it receives sees request 1 first and request 2 second - whatever the order in
/// which the two response futures are polled afterwards, and also if the first one is dropped
/// without ever being polled.
#[derive(Clone, Copy, Debug, PartialEq, Eq)]
enum TwoOrder {
    FirstThenSecond,
    SecondThenFirst,
    AlternateFromFirst,
    AlternateFromSecond,
    DropFirstUnpolled,
}
const TWO_ORDERS: [TwoOrder; 5] = [TwoOrder::FirstThenSecond, TwoOrder::SecondThenFirst, TwoOrder::AlternateFromFirst, TwoOrder::AlternateFromSecond, TwoOrder::DropFirstUnpolled];

fn ready_until_ok(svc: &Svc, env: &Rc<Env>) -> Result<(), u64> {
    for _ in 0..40 {
        let round = env.round.get() + 1;
        env.round.set(round);
        let w = CountWaker::new(round as usize);
        let waker = w.waker();
        match svc.poll_ready(&mut Context::from_waker(&waker)) {
            Poll::Pending => {}
            Poll::Ready(r) => return r,
        }
    }
    panic!("poll_ready never ready");
}

fn check_two_calls_inner(c: &SvcCase, order: TwoOrder, env: &Rc<Env>, svc: &Svc, c12: bool) -> Result<(), Bad> {
    let first = c.tree.first_stage_leaf();
    env.order_sensitive.borrow_mut().insert(first);
    let (r1, r2) = (c.req, c.req + 2);
    if ready_until_ok(svc, env).is_err() {
        return Ok(());
    }
    let mut f1 = Some(svc.call(r1));
    if ready_until_ok(svc, env).is_err() {
        return Ok(());
    }
    let mut f2 = Some(svc.call(r2));
    let mut res: [Option<Result<u64, u64>>; 2] = [None, None];
    if order == TwoOrder::DropFirstUnpolled {
        f1 = None;
    }
    let mut turn = match order {
        TwoOrder::FirstThenSecond | TwoOrder::AlternateFromFirst => 0,
        _ => 1,
    };
    for _ in 0..200 {
        let live = [f1.is_some(), f2.is_some()];
        if !live[0] && !live[1] {
            break;
        }
        if !live[turn] {
            turn = 1 - turn;
        }
        let round = env.round.get() + 1;
        env.round.set(round);
        let w = CountWaker::new(round as usize);
        let waker = w.waker();
        let mut cx = Context::from_waker(&waker);
        let f = if turn == 0 { &mut f1 } else { &mut f2 };
        match f.as_mut().unwrap().as_mut().poll(&mut cx) {
            Poll::Ready(r) => {
                res[turn] = Some(r);
                *f = None;
            }
            Poll::Pending => {
                if c12 {
                    // Pending is only allowed while an inner future of *this* call is pending: one of
                    // them must have been polled to Pending in this very poll and hold this waker
                    let pend = env.pending.borrow();
                    let mine: Vec<&(Waker, u32)> = pend.iter().filter(|(k, (_, r))| matches!(k, Key::Fut(..)) && *r == round).map(|(_, v)| v).collect();
                    if mine.is_empty() {
                        return Err(bad("call-future:pending-with-no-inner-polled-to-pending", format!("two calls outstanding, futures polled {:?}: the poll of call {} in round {round} returned Pending although none of its inner futures was polled to Pending in that poll", order, turn + 1)));
                    }
                    for (wk, _) in mine {
                        let before = w.count();
                        wk.wake_by_ref();
                        if w.count() != before + 1 {
                            return Err(bad("call-future:stale-waker", format!("two calls outstanding: the inner future that is pending after the poll of call {} does not hold the waker of that poll", turn + 1)));
                        }
                    }
                }
            }
        }
        if matches!(order, TwoOrder::AlternateFromFirst | TwoOrder::AlternateFromSecond) {
            turn = 1 - turn;
        }
    }
    let scripts = c.scripts.clone();
    let sf = move |i: usize| scripts.get(i).copied().unwrap_or_default();
    for (k, req) in [(0usize, r1), (1, r2)] {
        if k == 0 && order == TwoOrder::DropFirstUnpolled {
            continue;
        }
        let want = eval_inst(&c.tree, req, &sf, &|l| (l == first).then_some(k as u32 + 1), &mut vec![]);
        match res[k] {
            Some(got) if got == want => {}
            Some(got) => {
                return Err(bad(
                    "two-calls:response-depends-on-poll-order",
                    format!("two calls outstanding ({r1} then {r2}), futures polled {:?}: call {} returned {:?}, the reference composition (first stage handed the request inside `call`) gives {:?}", order, k + 1, got, want),
                ))
            }
            None => return Err(bad("two-calls:never-completes", format!("call {} did not complete", k + 1))),
        }
    }
    Ok(())
}

fn check_two_calls(c: &SvcCase, order: TwoOrder, c12: bool) -> Result<(), Bad> {
    let env = Env::new(c.scripts.clone(), vec![]);
    let svc = build(&c.tree, &env);
    let r = match mcutil::quiet_catch(|| check_two_calls_inner(c, order, &env, &svc, c12)) {
        Ok(r) => r,
        Err(p) => Err(bad("panic", mcutil::panic_message(&*p))),
    };
    drop(svc);
    env.free();
    r
}

#[derive(Debug, Clone)]
struct SvcCase {
    tree: T,
    scripts: Vec<Script>,
    req: u64,
}

fn script_json(s: &Script) -> Value {
    json!([s.ready_pend, s.ready_err, s.call_pend, s.call_err, s.regress])
}
fn script_from(v: &Value) -> Script {
    Script { ready_pend: v[0].as_u64().unwrap() as u8, ready_err: v[1].as_bool().unwrap(), call_pend: v[2].as_u64().unwrap() as u8, call_err: v[3].as_bool().unwrap(), regress: v.get(4).and_then(|x| x.as_u64()).unwrap_or(0) as u8 }
}

impl SvcCase {
    fn to_json(&self) -> Value {
        json!({"kind": "service", "tree": self.tree.to_json(), "scripts": self.scripts.iter().map(script_json).collect::<Vec<_>>(), "req": self.req})
    }
    fn from_json(v: &Value) -> SvcCase {
        SvcCase { tree: T::from_json(&v["tree"]), scripts: v["scripts"].as_array().unwrap().iter().map(script_from).collect(), req: v["req"].as_u64().unwrap() }
    }
}

struct SvcStats {
    pending_rounds: u32,
    errored: bool,
}

fn check_service_case(c: &SvcCase, c12: bool, verbose: bool) -> Result<SvcStats, Bad> {
    let env = Env::new(c.scripts.clone(), vec![]);
    let svc = build(&c.tree, &env);
    let r = check_service_case_inner(c, c12, verbose, &env, &svc);
    drop(svc);
    env.free();
    r
}

fn check_service_case_inner(c: &SvcCase, c12: bool, verbose: bool, env: &Rc<Env>, svc: &Svc) -> Result<SvcStats, Bad> {
    let svc = svc;
    let driven = mcutil::quiet_catch((|| drive_service(svc, &c.tree, env, c.req, c12, true)));
    if verbose {
        for e in env.log.borrow().iter() {
            println!("  {:?}", e);
        }
    }
    if let Some(b) = poll_after_done(&env) {
        return Err(b);
    }
    let driven = match driven {
        Ok(d) => d?,
        Err(p) => return Err(bad("panic", mcutil::panic_message(&*p))),
    };
    let scripts = c.scripts.clone();
    let sf = move |i: usize| scripts.get(i).copied().unwrap_or_default();
    let mut stats = SvcStats { pending_rounds: (driven.ready_rounds + driven.call_rounds).saturating_sub(2), errored: false };
    match driven.result {
        Err(_) => {
            // readiness failed: nothing may have been called
            stats.errored = true;
            if env.log.borrow().iter().any(|e| matches!(e, Ev::Call { .. })) {
                return Err(bad("call-without-readiness", "an inner service was called although readiness failed".into()));
            }
        }
        Ok(res) => {
            let mut trace = vec![];
            let want = eval(&c.tree, c.req, &sf, &mut trace);
            stats.errored = want.is_err();
            if verbose {
                println!("  result {:?}, reference {:?}", res, want);
            }
            if res != want {
                let sig = match (&res, &want) {
                    (Ok(_), Err(_)) => "result:ok-instead-of-error",
                    (Err(_), Ok(_)) => "result:error-instead-of-ok",
                    (Ok(_), Ok(_)) => "result:wrong-response-value",
                    (Err(_), Err(_)) => "result:wrong-error-value",
                };
                return Err(bad(sig, format!("combined service returned {:?}, reference composition gives {:?}", res, want)));
            }
            // calls and completions, in order (Pending polls and rounds ignored)
            let got: Vec<Ev> = env
                .log
                .borrow()
                .iter()
                .filter_map(|e| match e {
                    Ev::Call { .. } => Some(e.clone()),
                    Ev::Poll { leaf, res, .. } if *res != R::Pend => Some(Ev::Poll { leaf: *leaf, round: 0, res: *res }),
                    _ => None,
                })
                .collect();
            if got != trace {
                return Err(bad("call-order-or-multiplicity", format!("leaf calls/completions {:?} differ from the reference {:?}", got, trace)));
            }
        }
    }
    Ok(stats)
}

// ---------------------------------------------------------------------------------------
// factories
// ---------------------------------------------------------------------------------------

const NOCFG: u64 = 0xFFFF_0001;
const TRANSFORM: u64 = 0xFFFF_0002;
const CFG0: u64 = 5;

struct ScriptedFut<O> {
    id: usize,
    inst: u32,
    polls: u8,
    done: bool,
    env: Rc<Env>,
    make: Option<Box<dyn FnOnce() -> O>>,
}

impl<O> ScriptedFut<O> {
    fn new(id: usize, cfg: u64, env: &Rc<Env>, make: impl FnOnce() -> O + 'static) -> Self {
        env.ev(Ev::New { id, cfg });
        let mut news = env.news.borrow_mut();
        let inst = news.entry(id).or_insert(0);
        *inst += 1;
        ScriptedFut { id, inst: *inst, polls: 0, done: false, env: env.clone(), make: Some(Box::new(make)) }
    }
}

impl<O> Unpin for ScriptedFut<O> {}

impl<O> Future for ScriptedFut<O> {
    type Output = Result<O, u64>;
    fn poll(mut self: Pin<&mut Self>, cx: &mut Context<'_>) -> Poll<Self::Output> {
        let s = self.env.fscript(self.id);
        let round = self.env.round.get();
        if self.done {
            self.env.ev(Ev::PollAfterDone { what: "factory/transform future", id: self.id });
            panic!("factory future polled after completion");
        }
        let key = Key::FFut(self.id, self.inst);
        if self.polls < s.pend {
            self.polls += 1;
            self.env.park(key, cx);
            self.env.ev(Ev::FPoll { id: self.id, round, res: R::Pend });
            return Poll::Pending;
        }
        self.env.unpark(key);
        self.done = true;
        if s.err {
            let e = init_err_code(self.id);
            self.env.ev(Ev::FPoll { id: self.id, round, res: R::Err(e) });
            Poll::Ready(Err(e))
        } else {
            self.env.ev(Ev::FPoll { id: self.id, round, res: R::Ok(0) });
            Poll::Ready(Ok((self.make.take().unwrap())()))
        }
    }
}

impl<O> Drop for ScriptedFut<O> {
    fn drop(&mut self) {
        self.env.unpark(Key::FFut(self.id, self.inst));
    }
}

struct ScriptedTransform {
    id: usize,
    env: Rc<Env>,
}

fn transform_tag(id: usize) -> u64 {
    40 + id as u64
}

impl Transform<Svc, u64> for ScriptedTransform {
    type Response = u64;
    type Error = u64;
    type Transform = Svc;
    type InitError = u64;
    type Future = ScriptedFut<Svc>;
    fn new_transform(&self, service: Svc) -> Self::Future {
        let g = transform_tag(self.id);
        ScriptedFut::new(self.id, TRANSFORM, &self.env, move || boxed::service(service.map(move |x| tagv(x, g))))
    }
}

#[derive(Clone, Debug, PartialEq, Eq)]
pub enum F {
    Leaf(usize),
    FnNoCfg(usize),
    FnSvc(usize),
    ApplyCfg(usize),
    AndThen(Box<F>, Box<F>),
    Map(Box<F>, u64),
    MapErr(Box<F>, u64),
    MapInitErr(Box<F>, u64),
    MapConfig(Box<F>, u64),
    UnitConfig(Box<F>),
    ApplyCfgFactory(Box<F>, usize),
    ApplyFnFactory(Box<F>, u64),
    Transform(Box<F>, usize),
    Boxed(Box<F>),
    Rc(Box<F>),
}

const F_LEAVES: [&str; 4] = ["leaf", "fn_factory", "fn_service", "apply_cfg"];
const F_UNARY: [&str; 10] = ["map", "map_err", "map_init_err", "map_config", "unit_config", "apply_cfg_factory", "apply_fn_factory", "transform", "boxed", "rc"];

fn f_leaf(kind: &str, id: usize) -> F {
    match kind {
        "leaf" => F::Leaf(id),
        "fn_factory" => F::FnNoCfg(id),
        "fn_service" => F::FnSvc(id),
        "apply_cfg" => F::ApplyCfg(id),
        _ => unreachable!(),
    }
}

fn f_unary(kind: &str, f: F, n: u64) -> F {
    let b = Box::new(f);
    match kind {
        "map" => F::Map(b, n),
        "map_err" => F::MapErr(b, n),
        "map_init_err" => F::MapInitErr(b, n),
        "map_config" => F::MapConfig(b, n),
        "unit_config" => F::UnitConfig(b),
        "apply_cfg_factory" => F::ApplyCfgFactory(b, n as usize),
        "apply_fn_factory" => F::ApplyFnFactory(b, n),
        "transform" => F::Transform(b, n as usize),
        "boxed" => F::Boxed(b),
        "rc" => F::Rc(b),
        _ => unreachable!(),
    }
}

impl F {
    fn kind(&self) -> &'static str {
        match self {
            F::Leaf(_) => "leaf",
            F::FnNoCfg(_) => "fn_factory",
            F::FnSvc(_) => "fn_service",
            F::ApplyCfg(_) => "apply_cfg",
            F::AndThen(..) => "and_then",
            F::Map(..) => "map",
            F::MapErr(..) => "map_err",
            F::MapInitErr(..) => "map_init_err",
            F::MapConfig(..) => "map_config",
            F::UnitConfig(_) => "unit_config",
            F::ApplyCfgFactory(..) => "apply_cfg_factory",
            F::ApplyFnFactory(..) => "apply_fn_factory",
            F::Transform(..) => "transform",
            F::Boxed(_) => "boxed",
            F::Rc(_) => "rc",
        }
    }
    fn to_json(&self) -> Value {
        match self {
            F::Leaf(i) | F::FnNoCfg(i) | F::FnSvc(i) | F::ApplyCfg(i) => json!({self.kind(): i}),
            F::AndThen(a, b) => json!({"and_then": [a.to_json(), b.to_json()]}),
            F::Map(f, n) | F::MapErr(f, n) | F::MapInitErr(f, n) | F::MapConfig(f, n) | F::ApplyFnFactory(f, n) => json!({self.kind(): [f.to_json(), n]}),
            F::ApplyCfgFactory(f, n) | F::Transform(f, n) => json!({self.kind(): [f.to_json(), n]}),
            F::UnitConfig(f) | F::Boxed(f) | F::Rc(f) => json!({self.kind(): [f.to_json()]}),
        }
    }
    fn from_json(v: &Value) -> F {
        let (k, a) = v.as_object().unwrap().iter().next().unwrap();
        if F_LEAVES.contains(&k.as_str()) {
            return f_leaf(k, a.as_u64().unwrap() as usize);
        }
        let arr = a.as_array().unwrap();
        if k == "and_then" {
            return F::AndThen(Box::new(F::from_json(&arr[0])), Box::new(F::from_json(&arr[1])));
        }
        f_unary(k, F::from_json(&arr[0]), arr.get(1).and_then(|n| n.as_u64()).unwrap_or(0))
    }
    /// ids of scripted entities (factory leaves, closures, transforms) in DFS order
    fn scripted(&self, out: &mut Vec<usize>) {
        match self {
            F::Leaf(i) | F::FnNoCfg(i) | F::ApplyCfg(i) => out.push(*i),
            F::FnSvc(_) => {}
            F::AndThen(a, b) => {
                a.scripted(out);
                b.scripted(out);
            }
            F::ApplyCfgFactory(f, i) | F::Transform(f, i) => {
                out.push(*i);
                f.scripted(out);
            }
            F::Map(f, _) | F::MapErr(f, _) | F::MapInitErr(f, _) | F::MapConfig(f, _) | F::ApplyFnFactory(f, _) | F::UnitConfig(f) | F::Boxed(f) | F::Rc(f) => f.scripted(out),
        }
    }
    fn has_apply_cfg_factory(&self) -> bool {
        match self {
            F::Leaf(_) | F::FnNoCfg(_) | F::FnSvc(_) | F::ApplyCfg(_) => false,
            F::AndThen(a, b) => a.has_apply_cfg_factory() || b.has_apply_cfg_factory(),
            F::ApplyCfgFactory(..) => true,
            F::Transform(f, _) | F::Map(f, _) | F::MapErr(f, _) | F::MapInitErr(f, _) | F::MapConfig(f, _) | F::ApplyFnFactory(f, _) | F::UnitConfig(f) | F::Boxed(f) | F::Rc(f) => f.has_apply_cfg_factory(),
        }
    }
}

fn f_shapes(depth: usize, leaf_kinds: &[&'static str]) -> Vec<F> {
    if depth == 0 {
        return leaf_kinds.iter().map(|k| f_leaf(k, 0)).collect();
    }
    let sub = f_shapes(depth - 1, leaf_kinds);
    let mut v: Vec<F> = leaf_kinds.iter().map(|k| f_leaf(k, 0)).collect();
    for k in F_UNARY {
        for s in &sub {
            v.push(f_unary(k, s.clone(), 0));
        }
    }
    for a in &sub {
        for b in &sub {
            v.push(F::AndThen(Box::new(a.clone()), Box::new(b.clone())));
        }
    }
    v
}

fn f_renumber(f: &F, next_id: &mut usize, next_tag: &mut u64) -> F {
    let mut id = |n: &mut usize| {
        let i = *n;
        *n += 1;
        i
    };
    match f {
        F::Leaf(_) | F::FnNoCfg(_) | F::FnSvc(_) | F::ApplyCfg(_) => f_leaf(f.kind(), id(next_id)),
        F::AndThen(a, b) => {
            let a = f_renumber(a, next_id, next_tag);
            let b = f_renumber(b, next_id, next_tag);
            F::AndThen(Box::new(a), Box::new(b))
        }
        F::ApplyCfgFactory(i, _) | F::Transform(i, _) => {
            let me = id(next_id);
            f_unary(f.kind(), f_renumber(i, next_id, next_tag), me as u64)
        }
        F::Map(i, _) | F::MapErr(i, _) | F::MapInitErr(i, _) | F::MapConfig(i, _) | F::ApplyFnFactory(i, _) => {
            *next_tag += 1;
            let g = *next_tag;
            f_unary(f.kind(), f_renumber(i, next_id, next_tag), g)
        }
        F::UnitConfig(i) | F::Boxed(i) | F::Rc(i) => f_unary(f.kind(), f_renumber(i, next_id, next_tag), 0),
    }
}

pub fn all_factory_trees(depth: usize, leaf_kinds: &[&'static str]) -> Vec<F> {
    f_shapes(depth, leaf_kinds)
        .iter()
        .map(|f| {
            let (mut i, mut g) = (0usize, 19u64);
            f_renumber(f, &mut i, &mut g)
        })
        .collect()
}

fn fbuild(f: &F, env: &Rc<Env>) -> Fac {
    match f {
        F::Leaf(id) => {
            let (id, env) = (*id, env.clone());
            boxed::factory(fn_factory_with_config(move |cfg: u64| {
                let e2 = env.clone();
                ScriptedFut::new(id, cfg, &env, move || LeafSvc { leaf: id, env: e2 })
            }))
        }
        F::FnNoCfg(id) => {
            let (id, env) = (*id, env.clone());
            boxed::factory(fn_factory(move || {
                let e2 = env.clone();
                ScriptedFut::new(id, NOCFG, &env, move || LeafSvc { leaf: id, env: e2 })
            }))
        }
        F::FnSvc(id) => {
            let leaf = LeafSvc { leaf: *id, env: env.clone() };
            boxed::factory(fn_service(move |req: u64| leaf.call(req)).map_init_err(|_: ()| 0u64))
        }
        F::ApplyCfg(id) => {
            let (id, env) = (*id, env.clone());
            let s1 = LeafSvc { leaf: id, env: env.clone() };
            boxed::factory(apply_cfg(s1, move |cfg: u64, s: &LeafSvc| {
                let s = s.clone();
                ScriptedFut::new(id, cfg, &env, move || s)
            }))
        }
        F::AndThen(a, b) => boxed::factory(fbuild(a, env).and_then(fbuild(b, env))),
        F::Map(i, g) => {
            let g = *g;
            boxed::factory(fbuild(i, env).map(move |x| tagv(x, g)))
        }
        F::MapErr(i, g) => {
            let g = *g;
            boxed::factory(fbuild(i, env).map_err(move |e| tagv(e, g)))
        }
        F::MapInitErr(i, g) => {
            let g = *g;
            boxed::factory(fbuild(i, env).map_init_err(move |e| tagv(e, g)))
        }
        F::MapConfig(i, g) => {
            let g = *g;
            boxed::factory(map_config(fbuild(i, env), move |c: u64| tagv(c, g)))
        }
        F::UnitConfig(i) => boxed::factory(unit_config(map_config(fbuild(i, env), |_: ()| 0u64))),
        F::ApplyCfgFactory(i, id) => {
            let (id, env2) = (*id, env.clone());
            boxed::factory(apply_cfg_factory(map_config(fbuild(i, env), |_: ()| 0u64), move |cfg: u64, _svc: &Svc| {
                let e2 = env2.clone();
                ScriptedFut::new(id, cfg, &env2, move || LeafSvc { leaf: id, env: e2 })
            }))
        }
        F::ApplyFnFactory(i, g) => {
            let g = *g;
            boxed::factory(apply_fn_factory(fbuild(i, env), move |req: u64, svc: &Svc| {
                let fut = svc.call(apply_pre(req, g));
                async move { fut.await.map(|r| tagv(r, g)) }
            }))
        }
        F::Transform(i, id) => boxed::factory(apply(ScriptedTransform { id: *id, env: env.clone() }, fbuild(i, env))),
        F::Boxed(i) => boxed::factory(boxed::factory(fbuild(i, env))),
        F::Rc(i) => boxed::factory(Rc::new(fbuild(i, env))),
    }
}

/// Timed reference: which service tree (or which init error) the factory future yields, and in
/// which poll round (0-based) it resolves when first polled in round `t0`. `news` collects the
/// (scripted id, config) pairs of all factory/closure/transform invocations of a run in which
/// nothing fails.
fn fres(f: &F, cfg: u64, t0: u32, env: &Env, news: &mut Vec<(usize, u64)>) -> (Result<T, u64>, u32) {
    let leaf = |id: usize, cfg: u64, news: &mut Vec<(usize, u64)>| {
        news.push((id, cfg));
        let s = env.fscript(id);
        (if s.err { Err(init_err_code(id)) } else { Ok(T::Leaf(id)) }, t0 + s.pend as u32)
    };
    match f {
        F::Leaf(id) | F::ApplyCfg(id) => leaf(*id, cfg, news),
        F::FnNoCfg(id) => leaf(*id, NOCFG, news),
        F::FnSvc(id) => (Ok(T::Leaf(*id)), t0),
        F::AndThen(a, b) => {
            let (ra, ta) = fres(a, cfg, t0, env, news);
            let (rb, tb) = fres(b, cfg, t0, env, news);
            match (ra, rb) {
                (Err(ea), Err(eb)) => {
                    if ta <= tb {
                        (Err(ea), ta)
                    } else {
                        (Err(eb), tb)
                    }
                }
                (Err(ea), Ok(_)) => (Err(ea), ta),
                (Ok(_), Err(eb)) => (Err(eb), tb),
                (Ok(x), Ok(y)) => (Ok(T::AndThen(Box::new(x), Box::new(y))), ta.max(tb)),
            }
        }
        F::Map(i, g) => {
            let (r, t) = fres(i, cfg, t0, env, news);
            (r.map(|x| T::Map(Box::new(x), *g)), t)
        }
        F::MapErr(i, g) => {
            let (r, t) = fres(i, cfg, t0, env, news);
            (r.map(|x| T::MapErr(Box::new(x), *g)), t)
        }
        F::ApplyFnFactory(i, g) => {
            let (r, t) = fres(i, cfg, t0, env, news);
            (r.map(|x| T::ApplyFn(Box::new(x), *g)), t)
        }
        F::MapInitErr(i, g) => {
            let (r, t) = fres(i, cfg, t0, env, news);
            (r.map_err(|e| tagv(e, *g)), t)
        }
        F::MapConfig(i, g) => fres(i, tagv(cfg, *g), t0, env, news),
        F::UnitConfig(i) => fres(i, 0, t0, env, news),
        F::Boxed(i) | F::Rc(i) => fres(i, cfg, t0, env, news),
        F::Transform(i, id) => {
            let (r, t1) = fres(i, cfg, t0, env, news);
            match r {
                Err(e) => (Err(e), t1),
                Ok(inner) => {
                    news.push((*id, TRANSFORM));
                    let s = env.fscript(*id);
                    (if s.err { Err(init_err_code(*id)) } else { Ok(T::Map(Box::new(inner), transform_tag(*id))) }, t1 + s.pend as u32)
                }
            }
        }
        F::ApplyCfgFactory(i, id) => {
            let (r, t1) = fres(i, 0, t0, env, news);
            match r {
                Err(e) => (Err(e), t1),
                Ok(inner) => {
                    // wait for readiness of the created service
                    let mut leaves = vec![];
                    inner.leaves(&mut leaves);
                    let mut first_err: Option<(u8, usize)> = None;
                    let mut max_pend = 0u8;
                    for l in &leaves {
                        let s = env.script(*l);
                        max_pend = max_pend.max(s.ready_pend);
                        if s.ready_err && first_err.map_or(true, |(p, _)| s.ready_pend < p) {
                            first_err = Some((s.ready_pend, *l));
                        }
                    }
                    if let Some((p, l)) = first_err {
                        return (Err(inner.map_ready_err(l, ready_err_code(l)).unwrap()), t1 + p as u32);
                    }
                    let t2 = t1 + max_pend as u32;
                    news.push((*id, cfg));
                    let s = env.fscript(*id);
                    (if s.err { Err(init_err_code(*id)) } else { Ok(T::Leaf(*id)) }, t2 + s.pend as u32)
                }
            }
        }
    }
}

#[derive(Debug, Clone)]
struct FacCase {
    tree: F,
    fscripts: Vec<FScript>,
    scripts: Vec<Script>,
    req: u64,
}

impl FacCase {
    fn to_json(&self) -> Value {
        json!({"kind": "factory", "tree": self.tree.to_json(),
            "fscripts": self.fscripts.iter().map(|s| json!([s.pend, s.err])).collect::<Vec<_>>(),
            "scripts": self.scripts.iter().map(script_json).collect::<Vec<_>>(), "req": self.req})
    }
    fn from_json(v: &Value) -> FacCase {
        FacCase {
            tree: F::from_json(&v["tree"]),
            fscripts: v["fscripts"].as_array().unwrap().iter().map(|s| FScript { pend: s[0].as_u64().unwrap() as u8, err: s[1].as_bool().unwrap() }).collect(),
            scripts: v["scripts"].as_array().unwrap().iter().map(script_from).collect(),
            req: v["req"].as_u64().unwrap(),
        }
    }
}

struct FacStats {
    pending_rounds: u32,
    init_failed: bool,
}

/// class "c11": result / config / multiplicity; class "c12": polling discipline
fn check_factory_case(c: &FacCase, c12: bool, verbose: bool) -> Result<FacStats, Bad> {
    let env = Env::new(c.scripts.clone(), c.fscripts.clone());
    let fac = fbuild(&c.tree, &env);
    let r = check_factory_case_inner(c, c12, verbose, &env, &fac);
    drop(fac);
    env.free();
    r
}

fn check_factory_case_inner(c: &FacCase, c12: bool, verbose: bool, env: &Rc<Env>, fac: &Fac) -> Result<FacStats, Bad> {
    let env = env.clone();
    let mut want_news = vec![];
    let (want, _t) = fres(&c.tree, CFG0, 0, &env, &mut want_news);
    let run = mcutil::quiet_catch((|| -> Result<(Result<Svc, u64>, u32), Bad> {
        let mut fut = fac.new_service(CFG0);
        let mut rounds = 0;
        loop {
            let round = env.round.get() + 1;
            env.round.set(round);
            rounds += 1;
            let w = CountWaker::new(round as usize);
            let waker = w.waker();
            let mut cx = Context::from_waker(&waker);
            match fut.as_mut().poll(&mut cx) {
                Poll::Ready(r) => return Ok((r, rounds)),
                Poll::Pending => {
                    if c12 {
                        check_pending(&env, round, &w, "factory-future")?;
                    }
                    if rounds > 60 {
                        return Err(bad("factory-future:never-completes", "factory future still Pending after 60 polls".into()));
                    }
                }
            }
        }
    }));
    if verbose {
        for e in env.log.borrow().iter() {
            println!("  {:?}", e);
        }
        println!("  reference: {:?}, invocations {:?}", want, want_news);
    }
    if let Some(b) = poll_after_done(&env) {
        return if c12 { Err(b) } else { Ok(FacStats { pending_rounds: 0, init_failed: false }) };
    }
    let (got, rounds) = match run {
        Ok(r) => r?,
        Err(p) => return Err(bad("panic", mcutil::panic_message(&*p))),
    };
    let mut stats = FacStats { pending_rounds: rounds - 1, init_failed: want.is_err() };
    if c12 {
        // the readiness gate of a factory future (apply_cfg_factory waits for the service it has
        // built): an inner readiness error is reported, not swallowed
        let ready_err = env.log.borrow().iter().find_map(|e| if let Ev::Ready { leaf, res: R::Err(e), round } = e { Some((*leaf, *e, *round)) } else { None });
        if let (Some((leaf, e, round)), Ok(_)) = (ready_err, &got) {
            return Err(bad("factory-future:readiness-error-swallowed", format!("while the factory future was being driven, the service it waits for (leaf {leaf}) answered poll_ready with Err({e}) in round {round}; the factory future resolved Ok all the same")));
        }
    }
    let got_news: Vec<(usize, u64)> = env.log.borrow().iter().filter_map(|e| if let Ev::New { id, cfg } = e { Some((*id, *cfg)) } else { None }).collect();
    if !c12 {
        // every invocation must be an expected one, at most once each
        let mut remaining = want_news.clone();
        for n in &got_news {
            match remaining.iter().position(|w| w == n) {
                Some(p) => {
                    remaining.remove(p);
                }
                None => {
                    let sig = if want_news.iter().any(|w| w.0 == n.0) && !want_news.contains(n) { "factory:wrong-config" } else { "factory:built-more-than-once-or-unexpected" };
                    return Err(bad(sig, format!("invocation {:?} not expected (expected {:?}, got {:?})", n, want_news, got_news)));
                }
            }
        }
        match (&got, &want) {
            (Ok(_), Ok(_)) => {
                if !remaining.is_empty() {
                    return Err(bad("factory:inner-not-built", format!("factory succeeded without invoking {:?}", remaining)));
                }
            }
            (Err(g), Err(w)) => {
                if g != w {
                    return Err(bad("factory:wrong-init-error", format!("init error {g}, reference (first error in poll order, mapped) {w}")));
                }
            }
            (Ok(_), Err(w)) => return Err(bad("factory:ok-instead-of-init-error", format!("factory succeeded, reference fails with {w}"))),
            (Err(g), Ok(_)) => return Err(bad("factory:init-error-instead-of-ok", format!("factory failed with {g}, reference succeeds"))),
        }
    }
    if let (Ok(svc), Ok(tree)) = (&got, &want) {
        // the built service must be the reference composition
        let before = env.log.borrow().len();
        let driven = mcutil::quiet_catch((|| drive_service(svc, tree, &env, c.req, false, false)));
        if let Some(b) = poll_after_done(&env) {
            return if c12 { Err(b) } else { Ok(stats) };
        }
        let driven = match driven {
            Ok(d) => d?,
            Err(p) => return Err(bad("panic", mcutil::panic_message(&*p))),
        };
        stats.pending_rounds += (driven.ready_rounds + driven.call_rounds).saturating_sub(2);
        if !c12 {
            if let Ok(res) = driven.result {
                let scripts = c.scripts.clone();
                let sf = move |i: usize| scripts.get(i).copied().unwrap_or_default();
                let mut trace = vec![];
                let want_res = eval(tree, c.req, &sf, &mut trace);
                if res != want_res {
                    return Err(bad("factory:built-service-differs", format!("service built by the factory returned {:?}, reference {:?}", res, want_res)));
                }
                let got_calls: Vec<Ev> = env.log.borrow()[before..].iter().filter(|e| matches!(e, Ev::Call { .. })).cloned().collect();
                let want_calls: Vec<Ev> = trace.into_iter().filter(|e| matches!(e, Ev::Call { .. })).collect();
                if got_calls != want_calls {
                    return Err(bad("factory:built-service-call-order", format!("calls {:?}, reference {:?}", got_calls, want_calls)));
                }
            }
        }
    }
    Ok(stats)
}

// ---------------------------------------------------------------------------------------
// enumeration
// ---------------------------------------------------------------------------------------

/// Calls `f` with every assignment of `n` slots in which at most `max_dev` slots take a
/// non-default option (all of `options`), the rest `default`.
fn assignments<O: Clone>(n: usize, options: &[O], default: &O, max_dev: usize, f: &mut dyn FnMut(&[O])) {
    fn rec<O: Clone>(pos: usize, left: usize, cur: &mut Vec<O>, options: &[O], default: &O, f: &mut dyn FnMut(&[O])) {
        if pos == cur.len() {
            f(cur);
            return;
        }
        cur[pos] = default.clone();
        rec(pos + 1, left, cur, options, default, f);
        if left > 0 {
            for o in options {
                cur[pos] = o.clone();
                rec(pos + 1, left - 1, cur, options, default, f);
            }
            cur[pos] = default.clone();
        }
    }
    let mut cur = vec![default.clone(); n];
    rec(0, max_dev.min(n), &mut cur, options, default, f);
}

fn call_options() -> Vec<Script> {
    let mut v = vec![];
    for p in 0..=2u8 {
        for e in [false, true] {
            if p != 0 || e {
                v.push(Script { call_pend: p, call_err: e, ..Default::default() });
            }
        }
    }
    v
}

fn full_options() -> Vec<Script> {
    let mut v = vec![];
    for rp in 0..=2u8 {
        for re in [false, true] {
            for cp in 0..=2u8 {
                for ce in [false, true] {
                    let s = Script { ready_pend: rp, ready_err: re, call_pend: cp, call_err: ce, regress: 0 };
                    if s != Script::default() {
                        v.push(s);
                    }
                }
            }
        }
    }
    v
}

/// Readiness that regresses after the first Ready(Ok), alone and after an initial Pending.
fn regress_options() -> Vec<Script> {
    let mut v = vec![];
    for regress in 1..=2u8 {
        for ready_pend in 0..=1u8 {
            v.push(Script { regress, ready_pend, ..Default::default() });
        }
    }
    v.push(Script { ready_pend: 1, ..Default::default() });
    v.push(Script { ready_err: true, ..Default::default() });
    v
}

fn reduced_options() -> Vec<Script> {
    full_options().into_iter().filter(|s| s.call_pend <= 1 && !(s.call_err && s.call_pend == 1)).collect()
}

fn fscript_options() -> Vec<FScript> {
    let mut v = vec![];
    for p in 0..=2u8 {
        for e in [false, true] {
            if p != 0 || e {
                v.push(FScript { pend: p, err: e });
            }
        }
    }
    v
}

#[derive(Default)]
struct Part {
    rounds: u64,
    runs: u64,
    nontrivial: u64,
    errors: u64,
    two_call_runs: u64,
    vios: Vec<Violation>,
    sample: Option<Value>,
}

impl Part {
    fn vio(&mut self, prop: &str, (sig, msg): Bad, replay: Value) {
        let sig = format!("{prop}:{sig}");
        let full = !self.vios.iter().any(|v| v.signature == sig);
        self.vios.push(Violation { signature: sig, summary: msg, replay: if full { replay } else { json!({"note": "elided"}) } });
    }
}

fn is_c12_sig(sig: &str) -> bool {
    sig.starts_with("poll_ready:") || sig.starts_with("call-future:") || sig.starts_with("factory-future:") || sig == "poll-after-completion" || sig == "panic" || sig == "call-without-readiness"
}

fn service_part(trees: &[T], options: &[Script], max_dev: usize, c12: bool, prop: &str) -> Part {
    let mut p = Part::default();
    for t in trees {
        let mut leaves = vec![];
        t.leaves(&mut leaves);
        assignments(leaves.len(), options, &Script::default(), max_dev, &mut |scripts| {
            let default_run = scripts.iter().all(|s| *s == Script::default());
            for req in if default_run { vec![1u64, 2] } else { vec![1u64] } {
                let c = SvcCase { tree: t.clone(), scripts: scripts.to_vec(), req };
                p.runs += 1;
                match check_service_case(&c, c12, false) {
                    Ok(st) => {
                        p.rounds += st.pending_rounds as u64 + 2;
                        if st.pending_rounds > 0 || st.errored {
                            p.nontrivial += 1;
                        }
                        if st.errored {
                            p.errors += 1;
                        }
                        if p.sample.is_none() && st.pending_rounds >= 2 && leaves.len() >= 3 {
                            p.sample = Some(c.to_json());
                        }
                    }
                    Err(b) => {
                        // a C11 run reports composition errors, a C12 run polling-discipline errors
                        if is_c12_sig(&b.0) == c12 || b.0 == "panic" {
                            p.vio(prop, b, c.to_json());
                        }
                    }
                }
                if req == 1 && scripts.iter().all(|s| s.ready_pend == 0 && !s.ready_err && s.regress == 0) {
                    for order in TWO_ORDERS {
                        p.runs += 1;
                        p.two_call_runs += 1;
                        if let Err(b) = check_two_calls(&c, order, c12).and_then(|_| if c12 { poll_after_done_unit() } else { Ok(()) }) {
                            if is_c12_sig(&b.0) != c12 && b.0 != "panic" {
                                continue;
                            }
                            let mut j = c.to_json();
                            j["two_calls"] = json!(format!("{:?}", order));
                            p.vio(prop, b, j);
                        }
                    }
                }
            }
        });
    }
    p
}

fn factory_part(trees: &[(F, Vec<&'static str>)], max_dev: usize, c12: bool, prop: &str) -> Part {
    let mut p = Part::default();
    let fopts = fscript_options();
    let ready_opts: Vec<Script> = full_options().into_iter().filter(|s| s.call_pend == 0 && !s.call_err).collect();
    for (t, kinds) in trees {
        let mut ids = vec![];
        t.scripted(&mut ids);
        let n_ids = kinds.len(); // total ids in this tree (scripted entities and fn_service leaves)
        assignments(ids.len(), &fopts, &FScript::default(), max_dev, &mut |fs| {
            let mut fscripts = vec![FScript::default(); n_ids];
            for (k, id) in ids.iter().enumerate() {
                fscripts[*id] = fs[k];
            }
            let devs = fs.iter().filter(|s| **s != FScript::default()).count();
            // service-leaf readiness deviation (one designated leaf) where it can matter
            let mut variants: Vec<Vec<Script>> = vec![vec![]];
            if t.has_apply_cfg_factory() && devs < max_dev {
                for (id, k) in kinds.iter().enumerate() {
                    if *k == "leaf" || *k == "apply_cfg" || *k == "fn_factory" {
                        for o in &ready_opts {
                            let mut s = vec![Script::default(); n_ids];
                            s[id] = *o;
                            variants.push(s);
                        }
                        break; // first eligible leaf only
                    }
                }
            }
            for scripts in variants {
                let c = FacCase { tree: t.clone(), fscripts: fscripts.clone(), scripts, req: 3 };
                p.runs += 1;
                match check_factory_case(&c, c12, false) {
                    Ok(st) => {
                        p.rounds += st.pending_rounds as u64 + 3;
                        if st.pending_rounds > 0 || st.init_failed {
                            p.nontrivial += 1;
                        }
                        if st.init_failed {
                            p.errors += 1;
                        }
                        if p.sample.is_none() && st.pending_rounds >= 2 && ids.len() >= 3 {
                            p.sample = Some(c.to_json());
                        }
                    }
                    Err(b) => {
                        if is_c12_sig(&b.0) == c12 || b.0 == "panic" {
                            p.vio(prop, b, c.to_json());
                        }
                    }
                }
            }
        });
    }
    p
}

/// kind of each id in a factory tree (index = id)
fn id_kinds(f: &F, out: &mut Vec<(usize, &'static str)>) {
    match f {
        F::Leaf(i) | F::FnNoCfg(i) | F::FnSvc(i) | F::ApplyCfg(i) => out.push((*i, f.kind())),
        F::AndThen(a, b) => {
            id_kinds(a, out);
            id_kinds(b, out);
        }
        F::ApplyCfgFactory(i, id) | F::Transform(i, id) => {
            out.push((*id, f.kind()));
            id_kinds(i, out);
        }
        F::Map(i, _) | F::MapErr(i, _) | F::MapInitErr(i, _) | F::MapConfig(i, _) | F::ApplyFnFactory(i, _) | F::UnitConfig(i) | F::Boxed(i) | F::Rc(i) => id_kinds(i, out),
    }
}

fn with_kinds(trees: Vec<F>) -> Vec<(F, Vec<&'static str>)> {
    trees
        .into_iter()
        .map(|t| {
            let mut k = vec![];
            id_kinds(&t, &mut k);
            k.sort();
            let kinds = k.into_iter().map(|(_, s)| s).collect();
            (t, kinds)
        })
        .collect()
}

fn run(args: &Args, c12: bool) -> i32 {
    let prop = if c12 { "C12" } else { "C11" };
    let mut rep = Report::new(args, "model_checking");
    if let Some(p) = &args.replay {
        let r = mcutil::load_replay(p);
        let res = if r["kind"] == "service" {
            let c = SvcCase::from_json(&r);
            println!("service case {:?}", c);
            match r["two_calls"].as_str() {
                Some(o) => {
                    let order = TWO_ORDERS.into_iter().find(|x| format!("{:?}", x) == o).expect("order");
                    check_two_calls(&c, order, c12)
                }
                None => check_service_case(&c, c12, true).map(|_| ()),
            }
        } else {
            let c = FacCase::from_json(&r);
            println!("factory case {:?}", c);
            check_factory_case(&c, c12, true).map(|_| ())
        };
        println!("replay verdict: {}", match &res { Ok(()) => "holds".to_string(), Err((s, m)) => format!("violates ({s}: {m})") });
        if let Err((s, m)) = res {
            rep.violation(Violation { signature: format!("{prop}:{s}"), summary: m, replay: r });
        }
        return rep.finish();
    }
    let thorough = args.tier == Tier::Thorough;
    let d_full = args.opt_usize("dfull", 2);
    let d_max = args.opt_usize("dmax", 3);
    let dev3 = args.opt_usize("dev3", if thorough { 2 } else { 1 });

    let mut parts: Vec<Part> = vec![];
    let chunked = |n: usize| -> Vec<(usize, usize)> {
        let step = (n / (args.threads * 8)).max(1);
        (0..n).step_by(step).map(|s| (s, (s + step).min(n))).collect()
    };

    // ---- services, shallow trees: full product of scripts
    let shallow = all_trees(d_full);
    let opts_full: Vec<Script> = if c12 { reduced_options() } else { call_options() };
    let ch = chunked(shallow.len());
    parts.extend(mcutil::par_map(args.threads, &ch, |_, (a, b)| service_part(&shallow[*a..*b], &opts_full, usize::MAX, c12, prop)));
    if c12 {
        // full 36-script alphabet, deviation-bounded
        let opts = full_options();
        let d = if thorough { 3 } else { 2 };
        parts.extend(mcutil::par_map(args.threads, &ch, |_, (a, b)| service_part(&shallow[*a..*b], &opts, d, c12, prop)));
    }
    // readiness that regresses between two polls (no call in between), deviation-bounded
    {
        let opts = regress_options();
        let d = if thorough { 3 } else { 2 };
        parts.extend(mcutil::par_map(args.threads, &ch, |_, (a, b)| service_part(&shallow[*a..*b], &opts, d, c12, prop)));
    }
    let shallow_runs: u64 = parts.iter().map(|p| p.runs).sum();
    rep.set("service_trees_full_product", shallow.len());
    rep.set("service_runs_full_product", shallow_runs);

    // ---- services, deep trees: deviation-bounded
    let deep: Vec<T> = all_trees(d_max).into_iter().filter(|t| !shallow.contains(t)).collect();
    let opts_deep: Vec<Script> = if c12 { full_options() } else { call_options() };
    let ch = chunked(deep.len());
    let before: u64 = parts.iter().map(|p| p.runs).sum();
    parts.extend(mcutil::par_map(args.threads, &ch, |_, (a, b)| service_part(&deep[*a..*b], &opts_deep, dev3, c12, prop)));
    {
        let opts = regress_options();
        parts.extend(mcutil::par_map(args.threads, &ch, |_, (a, b)| service_part(&deep[*a..*b], &opts, dev3, c12, prop)));
    }
    let after: u64 = parts.iter().map(|p| p.runs).sum();
    rep.set("service_trees_deviation_bounded", deep.len());
    rep.set("service_runs_deviation_bounded", after - before);
    rep.set("deviation_bound_deep_trees", dev3);

    // ---- factories
    let fshallow = with_kinds(all_factory_trees(d_full, &F_LEAVES));
    let ch = chunked(fshallow.len());
    let fdev = if thorough { 3 } else { 2 };
    parts.extend(mcutil::par_map(args.threads, &ch, |_, (a, b)| factory_part(&fshallow[*a..*b], fdev, c12, prop)));
    let after_f: u64 = parts.iter().map(|p| p.runs).sum();
    rep.set("factory_trees_4_leaf_kinds", fshallow.len());
    rep.set("factory_runs_4_leaf_kinds", after_f - after);
    let fdeep = with_kinds(all_factory_trees(d_max, &["leaf"]));
    let ch = chunked(fdeep.len());
    parts.extend(mcutil::par_map(args.threads, &ch, |_, (a, b)| factory_part(&fdeep[*a..*b], dev3, c12, prop)));
    let after_fd: u64 = parts.iter().map(|p| p.runs).sum();
    rep.set("factory_trees_depth3_one_leaf_kind", fdeep.len());
    rep.set("factory_runs_depth3", after_fd - after_f);

    let mut runs = 0;
    let mut nontrivial = 0;
    let mut errors = 0;
    let mut rounds = 0;
    let mut two_call_runs = 0;
    for p in parts {
        two_call_runs += p.two_call_runs;
        rounds += p.rounds;
        runs += p.runs;
        nontrivial += p.nontrivial;
        errors += p.errors;
        for v in p.vios {
            rep.violation(v);
        }
        if let Some(s) = p.sample {
            rep.sample(s);
        }
    }
    rep.set("runs_taking_an_error_path", errors);
    rep.set("runs_with_two_calls_outstanding", two_call_runs);
    rep.set("states", rounds + runs);
    rep.set("transitions", rounds);
    rep.set("traces_validated_against_impl", runs);
    rep.set("evaluations", runs);
    rep.set("distinct_nontrivial", nontrivial);
    rep.set("rule", format!(
        "service trees: all {} trees of combinator nesting <= {d_full} over {{leaf, and_then, map, map_err, apply_fn, boxed::service, boxed::rc_service, Rc, RefCell, &, &mut, Box}} with the full product of leaf scripts ({}), all further trees of nesting <= {d_max} with <= {dev3} deviating leaves; factory trees: all trees of nesting <= {d_full} over 4 leaf kinds (fn_factory_with_config, fn_factory, fn_service, apply_cfg) and 10 unary combinators + and_then with <= {fdev} deviating scripted entities (Pending^0..2 then Ok|Err), trees of nesting <= {d_max} over one leaf kind with <= {dev3}; each case = distinct (tree, scripts, request). Non-trivial = at least one Pending round or an error path. {}",
        shallow.len(),
        if c12 { "readiness Pending^0..2 then Ok|Err x call Pending^0..1 / Err; plus the full 36-script alphabet deviation-bounded" } else { "call future: Pending^0..2 then Ok|Err" },
        if c12 { "Checked: readiness rules, every pending inner polled with the current (fresh per poll) waker whenever the combinator returns Pending, no poll after completion, no call without readiness." } else { "Checked: result and leaf call/completion order against the pure interpreter; factories: init result (first error in poll order), each inner factory invoked at most once and with the supplied config, built service equals the reference composition." }
    ));
    rep.set("exhaustive", true);
    rep.assume("leaves obey the Service/Future contracts; mappers are injective and distinct per node so misapplied or doubly applied mappers change the value");
    rep.finish()
}

pub fn run_c11(args: &Args) -> i32 {
    run(args, false)
}
pub fn run_c12(args: &Args) -> i32 {
    run(args, true)
}
