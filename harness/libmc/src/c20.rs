//! C20 ByteString is always valid UTF-8 and agrees with `str`.
//!
//! Enumerated: every byte string of length <= N (5) over a 12-byte alphabet of ASCII, 2-,
//! 3- and 4-byte sequence fragments and invalid bytes, through every constructor; for every
//! value obtained: all split indices 0..=len+1, all sub-slices, comparison / hashing /
//! formatting / conversion against the equivalent `str`, with panic parity.

use std::{
    borrow::Borrow,
    collections::hash_map::DefaultHasher,
    hash::{Hash, Hasher},
};

use bytes::{Bytes, BytesMut};
use bytestring::ByteString;
use mcutil::{json, Args, Report, Value, Violation};

const ALPHA: [u8; 12] = [0x00, b'a', 0xC3, 0xA9, 0xE2, 0x82, 0xAC, 0xF0, 0x9F, 0x98, 0x80, 0xFF];

fn vio(sig: &str, input: &[u8], what: String) -> Violation {
    Violation {
        signature: sig.to_string(),
        summary: format!("{what} (input bytes {:02x?})", input),
        replay: json!({"input": input, "what": what}),
    }
}

fn h<T: Hash + ?Sized>(t: &T) -> u64 {
    let mut s = DefaultHasher::new();
    t.hash(&mut s);
    s.finish()
}

/// All fallible constructors; returns (name, result) pairs.
fn fallible(input: &[u8]) -> Vec<(&'static str, Result<ByteString, std::str::Utf8Error>)> {
    let mut v: Vec<(&'static str, Result<ByteString, std::str::Utf8Error>)> = vec![
        ("&[u8]", ByteString::try_from(input)),
        ("Vec<u8>", ByteString::try_from(input.to_vec())),
        ("Bytes", ByteString::try_from(Bytes::copy_from_slice(input))),
        ("BytesMut", ByteString::try_from(BytesMut::from(input))),
    ];
    // a Bytes that is a window into a larger buffer whose neighbours would complete/ruin sequences
    let mut padded = vec![0xC3u8];
    padded.extend_from_slice(input);
    padded.push(0xA9);
    let b = Bytes::from(padded).slice(1..1 + input.len());
    v.push(("Bytes(window)", ByteString::try_from(b)));
    let mut bm = BytesMut::from(&[0xF0u8, 0x9F][..]);
    bm.extend_from_slice(input);
    bm.extend_from_slice(&[0x80]);
    let mut tail = bm.split_off(2);
    let _ = tail.split_off(input.len());
    v.push(("BytesMut(window)", ByteString::try_from(tail)));
    macro_rules! arr {
        ($($n:expr)+) => { match input.len() { $( $n => { let a: [u8; $n] = input.try_into().unwrap(); v.push(("[u8;N]", ByteString::try_from(a))); v.push(("&[u8;N]", ByteString::try_from(&a))); } )+ _ => {} } }
    }
    arr!(0 1 2 3 4 5 6 7 8);
    v
}

fn infallible(s: &str) -> Vec<(&'static str, ByteString)> {
    let leaked: &'static str = Box::leak(s.to_string().into_boxed_str());
    vec![
        ("From<&str>", ByteString::from(s)),
        ("From<String>", ByteString::from(s.to_string())),
        ("From<Box<str>>", ByteString::from(s.to_string().into_boxed_str())),
        ("from_static", ByteString::from_static(leaked)),
    ]
}

/// Checks one obtained value against the equivalent `str`. Returns violations.
fn check_value(name: &str, bs: &ByteString, s: &str, input: &[u8], out: &mut Vec<Violation>, ops: &mut u64) {
    // the invariant itself, checked without going through Deref
    let raw: &[u8] = bs.as_bytes().as_ref();
    if std::str::from_utf8(raw).is_err() {
        out.push(vio("invalid-utf8-value", input, format!("{name} produced a ByteString whose bytes are not UTF-8")));
        return;
    }
    if raw != s.as_bytes() {
        out.push(vio("constructor-changed-bytes", input, format!("{name} produced different bytes")));
        return;
    }
    *ops += 1;
    let as_str: &str = bs;
    let borrowed: &str = bs.borrow();
    let as_ref: &str = bs.as_ref();
    let as_ref_b: &[u8] = bs.as_ref();
    if as_str != s || borrowed != s || as_ref != s || as_ref_b != s.as_bytes() {
        out.push(vio("deref-borrow-asref", input, format!("{name}: Deref/Borrow/AsRef differ from the str")));
    }
    if h(bs) != h(s) {
        out.push(vio("hash", input, format!("{name}: Hash differs from str's")));
    }
    if format!("{bs}") != format!("{s}") || format!("{bs:?}") != format!("{s:?}") || format!("{bs:>7}") != format!("{s:>7}") {
        out.push(vio("display-debug", input, format!("{name}: Display/Debug differ from str's")));
    }
    // width / precision / fill / alignment / alternate forms
    macro_rules! same {
        ($($f:literal)+) => { $( if format!($f, bs) != format!($f, s) { out.push(vio("display-debug:format-spec", input, format!("{name}: format spec {:?} gives {:?}, str gives {:?}", $f, format!($f, bs), format!($f, s)))); return; } )+ };
    }
    same!("{:.0}" "{:.1}" "{:.2}" "{:.9}" "{:3}" "{:<4}" "{:^5}" "{:>6}" "{:*<5.1}" "{:#>4.2}" "{:2.0}" "{:#?}" "{:8?}" "{:<8?}" "{:.1?}");
    if String::from(bs.clone()) != s || bs.to_string() != s {
        out.push(vio("into-string", input, format!("{name}: String::from differs")));
    }
    if !(bs == s) || !(*bs == *s) || bs != &s.to_string() || bs.clone().into_bytes().as_ref() != s.as_bytes() {
        out.push(vio("eq-str", input, format!("{name}: PartialEq<str>/<String> or into_bytes disagree")));
    }
    // split_at parity for every index 0..=len+1
    for mid in 0..=s.len() + 1 {
        *ops += 1;
        let want = mcutil::quiet_catch(|| {
            let (a, b) = s.split_at(mid);
            (a.to_string(), b.to_string())
        });
        let got = mcutil::quiet_catch((|| bs.split_at(mid)));
        match (want, got) {
            (Err(_), Err(_)) => {}
            (Ok((a, b)), Ok((ga, gb))) => {
                let ok = std::str::from_utf8(ga.as_bytes()).is_ok()
                    && std::str::from_utf8(gb.as_bytes()).is_ok()
                    && ga.as_bytes().as_ref() == a.as_bytes()
                    && gb.as_bytes().as_ref() == b.as_bytes();
                if !ok {
                    out.push(vio("split_at-result", input, format!("{name}: split_at({mid}) parts differ from str::split_at")));
                }
            }
            (Err(_), Ok((ga, gb))) => {
                let bad = std::str::from_utf8(ga.as_bytes()).is_err() || std::str::from_utf8(gb.as_bytes()).is_err();
                out.push(vio(
                    if bad { "split_at-no-panic-invalid-parts" } else { "split_at-no-panic" },
                    input,
                    format!("{name}: split_at({mid}) returned where str::split_at panics"),
                ));
            }
            (Ok(_), Err(_)) => out.push(vio("split_at-extra-panic", input, format!("{name}: split_at({mid}) panicked where str::split_at does not"))),
        }
    }
    // slice_ref of every sub-str
    let view: &str = bs;
    for i in 0..=view.len() {
        for j in i..=view.len() {
            if !view.is_char_boundary(i) || !view.is_char_boundary(j) {
                continue;
            }
            *ops += 1;
            let sub = &view[i..j];
            match mcutil::quiet_catch((|| bs.slice_ref(sub))) {
                Ok(r) => {
                    if std::str::from_utf8(r.as_bytes()).is_err() || r.as_bytes().as_ref() != s[i..j].as_bytes() {
                        out.push(vio("slice_ref-result", input, format!("{name}: slice_ref({i}..{j}) differs from the str slice")));
                    }
                }
                Err(_) => out.push(vio("slice_ref-panic-on-subslice", input, format!("{name}: slice_ref({i}..{j}) panicked on a genuine sub-slice"))),
            }
        }
    }
    // a foreign, equal-by-value, non-empty str must be refused
    if !s.is_empty() {
        let foreign = s.to_string();
        *ops += 1;
        if mcutil::quiet_catch((|| bs.slice_ref(&foreign))).is_ok() {
            out.push(vio("slice_ref-foreign-accepted", input, format!("{name}: slice_ref accepted a str that is not a sub-slice")));
        }
    }
}

/// Views that share storage with their parent (obtained by `slice_ref` and by `split_at`
/// chains): every operation on a view, comparisons between views of one buffer, and `slice_ref`
/// of a view with sub-strs of the *parent* (inside, straddling and outside the view).
fn check_views(name: &str, parent: &ByteString, s: &str, input: &[u8], out: &mut Vec<Violation>, ops: &mut u64) {
    let pstr: &str = parent;
    let bounds: Vec<usize> = (0..=s.len()).filter(|i| s.is_char_boundary(*i)).collect();
    let mut views: Vec<(usize, usize, ByteString)> = vec![];
    for (x, &i) in bounds.iter().enumerate() {
        for &j in &bounds[x..] {
            let by_slice = match mcutil::quiet_catch(|| parent.slice_ref(&pstr[i..j])) {
                Ok(v) => v,
                Err(_) => continue, // reported by check_value
            };
            let by_split = mcutil::quiet_catch(|| parent.split_at(j).0.split_at(i).1);
            views.push((i, j, by_slice));
            if let Ok(v) = by_split {
                views.push((i, j, v));
            }
        }
    }
    for (i, j, v) in &views {
        // a view is a ByteString like any other: the whole matrix again, against the str slice
        let before = out.len();
        check_value("view", v, &s[*i..*j], input, out, ops);
        if out.len() > before {
            let last = out.last_mut().unwrap();
            last.signature = format!("view:{}", last.signature);
            last.summary = format!("on the view {i}..{j} of a {name} value: {}", last.summary);
            return;
        }
        // slice_ref of the view with sub-strs of the parent
        for (x, &a) in bounds.iter().enumerate() {
            for &b in &bounds[x..] {
                *ops += 1;
                let inside = a >= *i && b <= *j;
                let r = mcutil::quiet_catch(|| v.slice_ref(&pstr[a..b]));
                match r {
                    Ok(got) => {
                        let got_str: &str = &got;
                        if a == b {
                            if !got_str.is_empty() {
                                out.push(vio("view:slice_ref-empty-subset", input, format!("view {i}..{j} of a {name} value: slice_ref of an empty sub-str returned {:?}", got_str)));
                                return;
                            }
                        } else if !inside {
                            out.push(vio("view:slice_ref-accepts-str-outside-the-view", input, format!("view {i}..{j} of a {name} value: slice_ref(&parent[{a}..{b}]) returned {:?} although that str is not a sub-slice of the view (it must panic)", got_str)));
                            return;
                        } else if got_str != &s[a..b] {
                            out.push(vio("view:slice_ref-result", input, format!("view {i}..{j} of a {name} value: slice_ref(&parent[{a}..{b}]) returned {:?}", got_str)));
                            return;
                        }
                    }
                    Err(_) => {
                        if inside || a == b {
                            // an empty subset never panics in Bytes::slice_ref; inside must work
                            out.push(vio("view:slice_ref-panic-on-subslice", input, format!("view {i}..{j} of a {name} value: slice_ref(&parent[{a}..{b}]) panicked on a genuine sub-slice")));
                            return;
                        }
                    }
                }
            }
        }
    }
    // comparisons between values that share one buffer
    let mut all: Vec<(usize, usize, &ByteString)> = views.iter().map(|(i, j, v)| (*i, *j, v)).collect();
    all.push((0, s.len(), parent));
    for (i1, j1, v1) in &all {
        for (i2, j2, v2) in &all {
            *ops += 1;
            let (s1, s2) = (&s[*i1..*j1], &s[*i2..*j2]);
            let ok = (*v1 == *v2) == (s1 == s2)
                && (**v1 == *s2) == (s1 == s2)
                && (*v1 == &s2.to_string()) == (s1 == s2)
                && v1.cmp(v2) == s1.cmp(s2)
                && v1.partial_cmp(v2) == s1.partial_cmp(s2)
                && (h(*v1) == h(*v2)) == (h(s1) == h(s2));
            if !ok {
                out.push(vio("view:eq-ord-hash-between-views-of-one-buffer", input, format!("{name}: views {i1}..{j1} ({s1:?}) and {i2}..{j2} ({s2:?}) of one buffer: Eq/Ord/Hash disagree with str (== gives {}, str gives {})", *v1 == *v2, s1 == s2)));
                return;
            }
        }
    }
}

pub fn run(args: &Args) -> i32 {
    let mut rep = Report::new(args, "exploration");
    let max_len = args.opt_usize("len", args.tier.pick(6, 7));
    if let Some(p) = &args.replay {
        let r = mcutil::load_replay(p);
        let input: Vec<u8> = r["input"].as_array().unwrap().iter().map(|b| b.as_u64().unwrap() as u8).collect();
        let (v, _, _) = check_input(&input);
        for x in &v {
            println!("{}", x.summary);
        }
        println!("replay verdict: {}", if v.is_empty() { "holds" } else { "violates" });
        for x in v {
            rep.violation(x);
        }
        return rep.finish();
    }

    let mut work: Vec<(usize, Vec<usize>)> = vec![];
    for l in (0..=max_len).rev() {
        if l < 2 {
            work.push((l, vec![]));
        } else {
            for a in 0..12 {
                for b in 0..12 {
                    work.push((l, vec![a, b]));
                }
            }
        }
    }
    let parts = mcutil::par_map(args.threads, &work, |_, (l, prefix)| {
        let mut evals = 0u64;
        let mut valid = 0u64;
        let mut ops = 0u64;
        let mut vios: Vec<Violation> = vec![];
        let mut valid_strings: Vec<String> = vec![];
        let mut input = vec![0u8; *l];
        for (i, s) in prefix.iter().enumerate() {
            input[i] = ALPHA[*s];
        }
        mcutil::for_each_seq(12, l - prefix.len(), |seq| {
            for (i, s) in seq.iter().enumerate() {
                input[prefix.len() + i] = ALPHA[*s];
            }
            evals += 1;
            let (v, is_valid, o) = check_input(&input);
            ops += o;
            if is_valid {
                valid += 1;
                valid_strings.push(String::from_utf8(input.clone()).unwrap());
            }
            for x in v {
                if vios.len() < 8 {
                    vios.push(x);
                } else if !vios.iter().any(|y| y.signature == x.signature) {
                    vios.push(x);
                }
            }
        });
        (evals, valid, ops, vios, valid_strings)
    });
    let mut evals = 0;
    let mut valid = 0;
    let mut ops = 0;
    let mut all_valid: Vec<String> = vec![];
    for (e, v, o, vios, vs) in parts {
        evals += e;
        valid += v;
        ops += o;
        for x in vios {
            rep.violation(x);
        }
        all_valid.extend(vs);
    }
    // pairwise Eq / Ord against str for all valid strings of length <= min(max_len, 4)
    all_valid.sort();
    all_valid.dedup();
    let small: Vec<&String> = all_valid.iter().filter(|s| s.len() <= 4.min(max_len)).collect();
    let idx: Vec<usize> = (0..small.len()).collect();
    let pair_parts = mcutil::par_map(args.threads, &idx, |_, &i| {
        let a = ByteString::from(small[i].as_str());
        let mut n = 0u64;
        let mut bad = None;
        for t in &small {
            let b = ByteString::try_from(t.as_bytes()).unwrap();
            n += 1;
            let ok = (a == b) == (small[i] == *t)
                && a.cmp(&b) == small[i].as_str().cmp(t.as_str())
                && a.partial_cmp(&b) == small[i].as_str().partial_cmp(t.as_str())
                && (h(&a) == h(&b)) == (h(small[i].as_str()) == h(t.as_str()));
            if !ok && bad.is_none() {
                bad = Some(vio("eq-ord-pair", small[i].as_bytes(), format!("Eq/Ord/Hash of ({:?},{:?}) disagree with str", small[i], t)));
            }
        }
        (n, bad)
    });
    let mut pairs = 0;
    for (n, bad) in pair_parts {
        pairs += n;
        if let Some(b) = bad {
            rep.violation(b);
        }
    }
    // long inputs: validation that works a machine word / a vector / a chunk at a time has
    // its corners beyond the short strings above. Every total length 8..=max_long of ASCII
    // filler with every byte string of length <= 3 over the alphabet embedded at every offset;
    // constructor verdict, error offsets and content only.
    let max_long = args.opt_usize("long", args.tier.pick(40, 72));
    let lens: Vec<usize> = (8..=max_long).collect();
    let long_parts = mcutil::par_map(args.threads, &lens, |_, &l| {
        let mut n = 0u64;
        let mut vios: Vec<Violation> = vec![];
        for w in 0..=3usize.min(l) {
            for off in 0..=(l - w) {
                mcutil::for_each_seq(12, w, |seq| {
                    if w > 0 && off > 0 && seq.iter().all(|s| ALPHA[*s] == b'a') {
                        return; // same input as offset 0
                    }
                    let mut input = vec![b'a'; l];
                    for (i, s) in seq.iter().enumerate() {
                        input[off + i] = ALPHA[*s];
                    }
                    n += 1;
                    let want = std::str::from_utf8(&input);
                    for (name, got) in fallible(&input) {
                        let bad = match (&want, got) {
                            (Ok(s), Ok(bs)) => (&*bs != *s || bs.as_bytes() != &input[..]).then(|| ("long-input:content-differs", format!("TryFrom<{name}> holds other bytes than it was given"))),
                            (Err(e), Err(g)) => (*e != g).then(|| ("long-input:constructor-error-offsets", format!("TryFrom<{name}> error {g:?} differs from str::from_utf8's {e:?}"))),
                            (Ok(_), Err(_)) => Some(("long-input:constructor-rejects-valid", format!("TryFrom<{name}> rejected valid UTF-8"))),
                            (Err(_), Ok(_)) => Some(("long-input:constructor-accepts-invalid", format!("TryFrom<{name}> accepted invalid UTF-8"))),
                        };
                        if let Some((sig, what)) = bad {
                            if !vios.iter().any(|y| y.signature == sig) {
                                vios.push(vio(sig, &input, what));
                            }
                        }
                    }
                });
            }
        }
        (n, vios)
    });
    let mut long_inputs = 0;
    for (n, vios) in long_parts {
        long_inputs += n;
        for x in vios {
            rep.violation(x);
        }
    }
    rep.set("long_inputs", long_inputs);
    rep.set("long_input_rule", format!("every length 8..={max_long} of ASCII filler with every byte string of length <= 3 over the alphabet at every offset, through the same fallible constructors (verdict, error offsets, content)"));
    rep.set("byte_strings", evals);
    rep.set("valid_utf8_strings", valid);
    rep.set("operations_compared_with_str", ops);
    rep.set("ordered_pairs_compared", pairs);
    rep.set("evaluations", evals);
    rep.set("distinct_nontrivial", valid);
    rep.set("rule", format!("every byte string of length 0..={max_len} over the 12-byte alphabet {:02x?} through 8 fallible constructors (incl. windows into larger Bytes/BytesMut and arrays); valid ones additionally through 4 infallible constructors, then split_at for every index 0..=len+1, slice_ref of every sub-str and of a foreign str, Eq/Ord/Hash/Display/Debug/String::from/Borrow against str; for three kinds of backing storage every view i..j (by slice_ref and by split_at chains) goes through the same matrix again, slice_ref of each view with every sub-str of its parent (inside / straddling / outside: panic parity), and Eq/Ord/Hash between all pairs of values sharing one buffer; distinct_nontrivial counts the distinct inputs that are valid UTF-8 (for those the full operation matrix runs; for the others only the constructor verdict and error offsets are compared)", ALPHA));
    rep.set("exhaustive", true);
    rep.sample(json!({"input": [0x61, 0xE2, 0x82, 0xAC], "str": "a€", "split_at": {"0": "ok", "1": "ok", "2": "panic", "3": "panic", "4": "ok", "5": "panic"}}));
    rep.sample(json!({"input": [0xF0, 0x9F, 0x98], "from_utf8": "Err(valid_up_to=0, error_len=None)"}));
    rep.assume("std's str/String behaviour is the reference");
    rep.finish()
}

fn check_input(input: &[u8]) -> (Vec<Violation>, bool, u64) {
    let mut out = vec![];
    let mut ops = 0u64;
    let want = std::str::from_utf8(input);
    for (name, got) in fallible(input) {
        ops += 1;
        match (&want, got) {
            (Ok(s), Ok(bs)) => check_value(name, &bs, s, input, &mut out, &mut ops),
            (Err(e), Err(g)) => {
                if *e != g {
                    out.push(vio("constructor-error-offsets", input, format!("TryFrom<{name}> error {g:?} differs from str::from_utf8's {e:?}")));
                }
            }
            (Ok(_), Err(_)) => out.push(vio("constructor-rejects-valid", input, format!("TryFrom<{name}> rejected valid UTF-8"))),
            (Err(_), Ok(_)) => out.push(vio("constructor-accepts-invalid", input, format!("TryFrom<{name}> accepted invalid UTF-8"))),
        }
    }
    if let Ok(s) = want {
        for (name, bs) in infallible(s) {
            check_value(name, &bs, s, input, &mut out, &mut ops);
        }
        if out.is_empty() {
            // values that share storage: a heap buffer, a window into a larger one, a static
            check_views("Bytes", &ByteString::try_from(Bytes::copy_from_slice(input)).unwrap(), s, input, &mut out, &mut ops);
            let mut padded = vec![b'x'];
            padded.extend_from_slice(input);
            padded.push(b'y');
            check_views("Bytes(window)", &ByteString::try_from(Bytes::from(padded).slice(1..1 + input.len())).unwrap(), s, input, &mut out, &mut ops);
            check_views("from_static", &ByteString::from_static(Box::leak(s.to_string().into_boxed_str())), s, input, &mut out, &mut ops);
        }
        let d = ByteString::new();
        if s.is_empty() && (d != *s || ByteString::default() != *s) {
            out.push(vio("new-default", input, "new()/default() are not the empty string".into()));
        }
    }
    (out, want.is_ok(), ops)
}
