//! C14 Framed writes are lossless, ordered and bounded, and close flushes.
//!
//! Enumerated: item-size lists (<= 3 items, sizes straddling the 1 KiB / 8 KiB marks) x every
//! legal sequence (<= depth) over {poll_ready, start_send (only directly after a
//! Ready(Ok) poll_ready), poll_flush, poll_close} x deviation-bounded transport scripts: the
//! k-th poll_write answers {all, 1 byte, half, Pending, 0 bytes, error}, the k-th
//! poll_flush / poll_shutdown answers {Ok, Pending, error}; default = all / Ok.
//! Driven through the real `Sink` impl of `Framed<_, BytesCodec>`.
//! Oracle: bytes at the transport are always a prefix of the concatenated encodings of the
//! accepted items; flush/close success => everything written, transport flushed (and shut
//! down) afterwards; poll_ready back-pressure at the high-water mark; WriteZero; transport
//! errors and Pending are surfaced.

use std::{
    io,
    pin::Pin,
    task::{Context, Poll},
};

use actix_codec::{AsyncRead, AsyncWrite, BytesCodec, Framed, ReadBuf};
use bytes::Bytes;
use futures_sink::Sink;
use mcutil::{json, Args, CountWaker, Report, Value, Violation};

const HW: usize = 8 * 1024;

#[derive(Debug, Clone, Copy, PartialEq, Eq)]
enum WAns {
    All,
    One,
    Half,
    Pending,
    Zero,
    Err,
}
#[derive(Debug, Clone, Copy, PartialEq, Eq)]
enum FAns {
    Ok,
    Pending,
    Err,
}

#[derive(Debug, Clone, Copy, PartialEq, Eq)]
enum Dev {
    Write(usize, WAns),
    Flush(usize, FAns),
    Shutdown(usize, FAns),
}

#[derive(Default)]
struct Transport {
    devs: Vec<Dev>,
    /// when > 0, an undeviated poll_write takes at most this many bytes (a slow peer)
    chunk: usize,
    written: Vec<u8>,
    w_calls: usize,
    f_calls: usize,
    s_calls: usize,
    seq: u64,
    last_write_seq: u64,
    last_flush_ok_seq: u64,
    last_shutdown_ok_seq: u64,
    // per-op observations, reset by the driver before each Sink call
    op_pending: bool,
    op_zero: bool,
    op_err: bool,
    op_io_calls: usize,
}

impl Transport {
    fn w_ans(&self, k: usize) -> WAns {
        self.devs.iter().find_map(|d| if let Dev::Write(i, a) = d { (*i == k).then_some(*a) } else { None }).unwrap_or(WAns::All)
    }
    fn f_ans(&self, k: usize) -> FAns {
        self.devs.iter().find_map(|d| if let Dev::Flush(i, a) = d { (*i == k).then_some(*a) } else { None }).unwrap_or(FAns::Ok)
    }
    fn s_ans(&self, k: usize) -> FAns {
        self.devs.iter().find_map(|d| if let Dev::Shutdown(i, a) = d { (*i == k).then_some(*a) } else { None }).unwrap_or(FAns::Ok)
    }
}

impl AsyncWrite for Transport {
    fn poll_write(mut self: Pin<&mut Self>, cx: &mut Context<'_>, buf: &[u8]) -> Poll<io::Result<usize>> {
        let k = self.w_calls;
        self.w_calls += 1;
        self.op_io_calls += 1;
        self.seq += 1;
        assert!(!buf.is_empty(), "Framed called poll_write with an empty buffer");
        let n = match self.w_ans(k) {
            WAns::All if self.chunk > 0 => buf.len().min(self.chunk),
            WAns::All => buf.len(),
            WAns::One => 1,
            WAns::Half => (buf.len() / 2).max(1),
            WAns::Zero => {
                self.op_zero = true;
                return Poll::Ready(Ok(0));
            }
            WAns::Pending => {
                self.op_pending = true;
                cx.waker().wake_by_ref();
                return Poll::Pending;
            }
            WAns::Err => {
                self.op_err = true;
                return Poll::Ready(Err(io::Error::new(io::ErrorKind::BrokenPipe, "injected-write-error")));
            }
        };
        self.written.extend_from_slice(&buf[..n]);
        self.last_write_seq = self.seq;
        Poll::Ready(Ok(n))
    }
    fn poll_flush(mut self: Pin<&mut Self>, cx: &mut Context<'_>) -> Poll<io::Result<()>> {
        let k = self.f_calls;
        self.f_calls += 1;
        self.op_io_calls += 1;
        self.seq += 1;
        match self.f_ans(k) {
            FAns::Ok => {
                self.last_flush_ok_seq = self.seq;
                Poll::Ready(Ok(()))
            }
            FAns::Pending => {
                self.op_pending = true;
                cx.waker().wake_by_ref();
                Poll::Pending
            }
            FAns::Err => {
                self.op_err = true;
                Poll::Ready(Err(io::Error::new(io::ErrorKind::BrokenPipe, "injected-flush-error")))
            }
        }
    }
    fn poll_shutdown(mut self: Pin<&mut Self>, cx: &mut Context<'_>) -> Poll<io::Result<()>> {
        let k = self.s_calls;
        self.s_calls += 1;
        self.op_io_calls += 1;
        self.seq += 1;
        match self.s_ans(k) {
            FAns::Ok => {
                self.last_shutdown_ok_seq = self.seq;
                Poll::Ready(Ok(()))
            }
            FAns::Pending => {
                self.op_pending = true;
                cx.waker().wake_by_ref();
                Poll::Pending
            }
            FAns::Err => {
                self.op_err = true;
                Poll::Ready(Err(io::Error::new(io::ErrorKind::BrokenPipe, "injected-shutdown-error")))
            }
        }
    }
}

impl AsyncRead for Transport {
    fn poll_read(self: Pin<&mut Self>, _: &mut Context<'_>, _: &mut ReadBuf<'_>) -> Poll<io::Result<()>> {
        Poll::Ready(Ok(()))
    }
}

#[derive(Debug, Clone, Copy, PartialEq, Eq)]
enum Op {
    Ready,
    Send,
    Flush,
    Close,
    /// a conversion of the `Framed` that must carry the write buffer over:
    /// 0 into_map_codec, 1 replace_codec, 2 into_map_io, 3 into_parts + from_parts;
    /// 4 is not a conversion: the read side is polled to end of stream
    Convert(u8),
}

fn item_bytes(k: usize, size: usize) -> Vec<u8> {
    (0..size).map(|i| (k as u8).wrapping_mul(83).wrapping_add((i % 251) as u8).wrapping_add(1)).collect()
}

#[derive(Debug, Clone)]
struct Case {
    sizes: Vec<usize>,
    ops: Vec<Op>,
    devs: Vec<Dev>,
    /// bytes taken per undeviated poll_write (0: everything)
    trickle: usize,
}

fn case_json(c: &Case) -> Value {
    json!({
        "sizes": c.sizes,
        "ops": c.ops.iter().map(|o| format!("{:?}", o)).collect::<Vec<_>>(),
        "devs": c.devs.iter().map(|d| format!("{:?}", d)).collect::<Vec<_>>(),
        "trickle": c.trickle,
    })
}

fn case_from(v: &Value) -> Case {
    let sizes = v["sizes"].as_array().unwrap().iter().map(|s| s.as_u64().unwrap() as usize).collect();
    let ops = v["ops"].as_array().unwrap().iter().map(|o| match o.as_str().unwrap() { "Ready" => Op::Ready, "Send" => Op::Send, "Flush" => Op::Flush, c if c.starts_with("Convert") => Op::Convert(c.chars().filter(|x| x.is_ascii_digit()).collect::<String>().parse().unwrap_or(0)), _ => Op::Close }).collect();
    let parse_dev = |s: &str| -> Dev {
        let inner = &s[s.find('(').unwrap() + 1..s.len() - 1];
        let (i, a) = inner.split_once(", ").unwrap();
        let i: usize = i.parse().unwrap();
        if s.starts_with("Write") {
            Dev::Write(i, match a { "All" => WAns::All, "One" => WAns::One, "Half" => WAns::Half, "Pending" => WAns::Pending, "Zero" => WAns::Zero, _ => WAns::Err })
        } else {
            let f = match a { "Ok" => FAns::Ok, "Pending" => FAns::Pending, _ => FAns::Err };
            if s.starts_with("Flush") { Dev::Flush(i, f) } else { Dev::Shutdown(i, f) }
        }
    };
    let devs = v["devs"].as_array().unwrap().iter().map(|d| parse_dev(d.as_str().unwrap())).collect();
    Case { sizes, ops, devs, trickle: v["trickle"].as_u64().unwrap_or(0) as usize }
}

struct Outcome {
    /// number of io calls the transport saw (for vacuity stats)
    io_calls: usize,
    flush_ok: bool,
    close_ok: bool,
    backpressure_seen: bool,
    deviation_hit: bool,
    ops: usize,
}

/// Runs one case; returns Err((signature, message)) on a violation. `legal` reports whether
/// the op list respects the Sink contract (callers only generate legal lists).
fn run_case(c: &Case, verbose: bool) -> Result<Outcome, (&'static str, String)> {
    let t = Transport { devs: c.devs.clone(), chunk: c.trickle, ..Default::default() };
    let mut framed = Box::pin(Framed::new(t, BytesCodec));
    let w = CountWaker::new(0);
    let waker = w.waker();
    let mut cx = Context::from_waker(&waker);
    let mut accepted: Vec<u8> = vec![]; // concatenated encodings of accepted items
    let mut next_item = 0usize;
    let mut may_send = false;
    let mut out = Outcome { io_calls: 0, flush_ok: false, close_ok: false, backpressure_seen: false, deviation_hit: false, ops: 0 };
    for (i, op) in c.ops.iter().enumerate() {
        {
            let t = framed.as_mut().get_mut().io_mut();
            t.op_pending = false;
            t.op_zero = false;
            t.op_err = false;
            t.op_io_calls = 0;
        }
        let buffered_before = accepted.len() - framed.io_ref().written.len();
        if let Op::Convert(4) = op {
            // the read direction reaches end of stream (the peer has half-closed): writing goes on
            let mut n = 0;
            while !matches!(futures_core::Stream::poll_next(framed.as_mut(), &mut cx), Poll::Ready(None)) {
                n += 1;
                if n > 8 {
                    return Err(("read-side-does-not-end", format!("op {i}: poll_next on a transport at end of stream did not return None")));
                }
            }
            may_send = false;
            out.ops += 1;
            continue;
        }
        if let Op::Convert(kind) = op {
            let f = *Pin::into_inner(framed);
            let f = match kind {
                0 => f.into_map_codec(|c| c),
                1 => f.replace_codec(BytesCodec),
                2 => f.into_map_io(|io| io),
                _ => Framed::from_parts(f.into_parts()),
            };
            framed = Box::pin(f);
            may_send = false;
            out.ops += 1;
            if verbose {
                println!("op {i} {:?}; {} bytes were buffered", op, buffered_before);
            }
            continue;
        }
        let res: Poll<Result<(), io::Error>> = match op {
            Op::Ready => Sink::<Bytes>::poll_ready(framed.as_mut(), &mut cx),
            Op::Send => {
                assert!(may_send, "illegal op list");
                let b = item_bytes(next_item, c.sizes[next_item]);
                next_item += 1;
                let r = Sink::<Bytes>::start_send(framed.as_mut(), Bytes::from(b.clone()));
                if r.is_ok() {
                    accepted.extend_from_slice(&b);
                }
                Poll::Ready(r)
            }
            Op::Flush => Sink::<Bytes>::poll_flush(framed.as_mut(), &mut cx),
            Op::Close => Sink::<Bytes>::poll_close(framed.as_mut(), &mut cx),
            Op::Convert(_) => unreachable!(),
        };
        may_send = *op == Op::Ready && matches!(res, Poll::Ready(Ok(())));
        let t = framed.io_ref();
        let written = &t.written;
        if verbose {
            println!("op {i} {:?} -> {:?}; transport has {} of {} accepted bytes; io calls {}", op, res, written.len(), accepted.len(), t.op_io_calls);
        }
        out.io_calls += t.op_io_calls;
        out.ops += 1;
        out.deviation_hit |= t.op_pending || t.op_zero || t.op_err;
        let at = format!("op {i} ({:?})", op);
        // 1. prefix, always
        if written.len() > accepted.len() || written[..] != accepted[..written.len()] {
            return Err(("bytes-not-a-prefix-of-encodings", format!("{at}: transport bytes are not a prefix of the accepted items' encodings (len {} vs {})", written.len(), accepted.len())));
        }
        let buffered = accepted.len() - written.len();
        // 2. surfaced transport answers
        match &res {
            Poll::Pending => {
                if !t.op_pending {
                    return Err(("pending-without-transport-pending", format!("{at}: returned Pending although the transport did not")));
                }
                if w.take() == 0 {
                    return Err(("pending-without-waker", format!("{at}: Pending without the waker having reached the transport")));
                }
            }
            Poll::Ready(Err(e)) => {
                if t.op_zero {
                    if e.kind() != io::ErrorKind::WriteZero {
                        return Err(("zero-write-not-writezero", format!("{at}: zero-length write reported as {:?}", e.kind())));
                    }
                } else if !t.op_err {
                    return Err(("error-without-transport-error", format!("{at}: error {e} although the transport reported none")));
                }
            }
            Poll::Ready(Ok(())) => {
                if t.op_zero {
                    return Err(("zero-write-swallowed", format!("{at}: transport accepted 0 bytes but the call reported success")));
                }
                if t.op_err {
                    return Err(("transport-error-swallowed", format!("{at}: transport error but the call reported success")));
                }
            }
        }
        // 3. per-op rules
        match (op, &res) {
            (Op::Flush, Poll::Ready(Ok(()))) => {
                out.flush_ok = true;
                if buffered != 0 {
                    return Err(("flush-ok-with-bytes-buffered", format!("{at}: poll_flush succeeded with {buffered} bytes still buffered")));
                }
                if !accepted.is_empty() && t.last_flush_ok_seq < t.last_write_seq {
                    return Err(("flush-ok-without-transport-flush", format!("{at}: poll_flush succeeded but the transport was not flushed after the last write")));
                }
            }
            (Op::Close, Poll::Ready(Ok(()))) => {
                out.close_ok = true;
                if buffered != 0 {
                    return Err(("close-ok-with-bytes-buffered", format!("{at}: poll_close succeeded with {buffered} bytes still buffered")));
                }
                if t.last_shutdown_ok_seq == 0 || t.last_shutdown_ok_seq < t.last_write_seq {
                    return Err(("close-ok-without-shutdown", format!("{at}: poll_close succeeded without a successful transport shutdown after the last write")));
                }
            }
            (Op::Ready, Poll::Ready(Ok(()))) => {
                if buffered_before >= HW {
                    out.backpressure_seen = true;
                    if buffered != 0 {
                        return Err(("ready-above-high-water-mark", format!("{at}: poll_ready = Ready(Ok) with {buffered_before} bytes buffered at entry and {buffered} at exit (HW {HW})")));
                    }
                } else if t.op_io_calls != 0 {
                    return Err(("ready-did-io-below-high-water-mark", format!("{at}: poll_ready touched the transport with only {buffered_before} bytes buffered")));
                }
            }
            (Op::Ready, _) => {
                if buffered_before < HW {
                    return Err(("not-ready-below-high-water-mark", format!("{at}: poll_ready = {:?} with only {buffered_before} bytes buffered", res)));
                }
                out.backpressure_seen = true;
            }
            (Op::Send, Poll::Ready(Err(e))) => return Err(("start_send-error", format!("{at}: start_send failed: {e}"))),
            _ => {}
        }
        if matches!((op, &res), (Op::Close, Poll::Ready(Ok(())))) {
            break;
        }
    }
    Ok(out)
}

/// All legal op lists of length 1..=depth (S only directly after R, which is *attempted*
/// optimistically: lists in which the R did not return Ready(Ok) are cut at run time).
fn op_lists(depth: usize, max_items: usize) -> Vec<Vec<Op>> {
    let mut out = vec![];
    fn rec(cur: &mut Vec<Op>, sends: usize, depth: usize, max_items: usize, out: &mut Vec<Vec<Op>>) {
        if !cur.is_empty() {
            out.push(cur.clone());
        }
        if cur.len() == depth {
            return;
        }
        for op in [Op::Ready, Op::Send, Op::Flush, Op::Close] {
            if op == Op::Send && (cur.last() != Some(&Op::Ready) || sends == max_items) {
                continue;
            }
            cur.push(op);
            rec(cur, sends + (op == Op::Send) as usize, depth, max_items, out);
            cur.pop();
        }
    }
    rec(&mut vec![], 0, depth, max_items, &mut out);
    out
}

fn dev_sets(max_dev: usize, positions: usize) -> Vec<Vec<Dev>> {
    let mut singles = vec![];
    for k in 0..positions {
        for a in [WAns::One, WAns::Half, WAns::Pending, WAns::Zero, WAns::Err] {
            singles.push(Dev::Write(k, a));
        }
        for a in [FAns::Pending, FAns::Err] {
            singles.push(Dev::Flush(k, a));
            singles.push(Dev::Shutdown(k, a));
        }
    }
    let mut out = vec![vec![]];
    if max_dev >= 1 {
        for a in &singles {
            out.push(vec![*a]);
        }
    }
    let same_slot = |a: &Dev, b: &Dev| match (a, b) {
        (Dev::Write(i, _), Dev::Write(j, _)) | (Dev::Flush(i, _), Dev::Flush(j, _)) | (Dev::Shutdown(i, _), Dev::Shutdown(j, _)) => i == j,
        _ => false,
    };
    if max_dev >= 2 {
        for i in 0..singles.len() {
            for j in i + 1..singles.len() {
                if !same_slot(&singles[i], &singles[j]) {
                    out.push(vec![singles[i], singles[j]]);
                }
            }
        }
    }
    if max_dev >= 3 {
        for i in 0..singles.len() {
            for j in i + 1..singles.len() {
                for k in j + 1..singles.len() {
                    let (a, b, c) = (&singles[i], &singles[j], &singles[k]);
                    if !same_slot(a, b) && !same_slot(a, c) && !same_slot(b, c) {
                        out.push(vec![*a, *b, *c]);
                    }
                }
            }
        }
    }
    out
}

pub fn run(args: &Args) -> i32 {
    let mut rep = Report::new(args, "model_checking");
    if let Some(p) = &args.replay {
        let r = mcutil::load_replay(p);
        let c = case_from(&r);
        let res = run_case(&c, true);
        println!("replay verdict: {}", match &res { Ok(_) => "holds".to_string(), Err((s, m)) => format!("violates ({s}: {m})") });
        if let Err((s, m)) = res {
            rep.violation(Violation { signature: s.to_string(), summary: m, replay: r });
        }
        return rep.finish();
    }
    let depth = args.opt_usize("depth", args.tier.pick(6, 7));
    let max_dev = args.opt_usize("dev", args.tier.pick(2, 3));
    let positions = args.opt_usize("positions", args.tier.pick(3, 3));
    let size_alpha: Vec<usize> = vec![1, 1023, 1025, 8191, 8193];
    let mut size_lists: Vec<Vec<usize>> = vec![];
    for a in &size_alpha {
        size_lists.push(vec![*a]);
        for b in &size_alpha {
            size_lists.push(vec![*a, *b]);
            for c in &size_alpha {
                size_lists.push(vec![*a, *b, *c]);
            }
        }
    }
    let lists = op_lists(depth, 3);
    // only maximal op lists need running when verdicts are prefix-closed, but outcome statistics
    // and the early `break` on close make prefixes cheap to skip: run lists that are not a proper
    // prefix of another list, i.e. those of full depth or ending in Close... simpler: run all
    // lists of exactly `depth` plus shorter lists ending in Close (nothing may follow a close).
    let mut run_lists: Vec<&Vec<Op>> = lists.iter().filter(|l| l.len() == depth || l.last() == Some(&Op::Close)).collect();
    // the same for lists of length depth-1 with one conversion of the Framed inserted at every
    // position after the first start_send (each of the four conversions)
    let conv_lists: Vec<Vec<Op>> = {
        let mut v = vec![];
        for l in lists.iter().filter(|l| (l.len() == depth - 1 || (l.len() < depth - 1 && l.last() == Some(&Op::Close))) && l.contains(&Op::Send)) {
            let first_send = l.iter().position(|o| *o == Op::Send).unwrap();
            for pos in first_send + 1..=l.len() {
                if pos > 0 && l[pos - 1] == Op::Close {
                    continue;
                }
                if pos < l.len() && l[pos] == Op::Send {
                    continue; // a start_send must directly follow its poll_ready
                }
                for kind in 0..5u8 {
                    let mut n = l.clone();
                    n.insert(pos, Op::Convert(kind));
                    v.push(n);
                }
            }
        }
        v
    };
    let n_plain = run_lists.len();
    run_lists.extend(conv_lists.iter());
    rep.set("op_lists_with_a_conversion_of_the_framed", run_lists.len() - n_plain);
    let devs = dev_sets(max_dev, positions);
    rep.set("op_lists", run_lists.len());
    rep.set("size_lists", size_lists.len());
    rep.set("transport_scripts", devs.len());
    // With 3 deviations the full product is too large: deviation bound 3 is run on size lists of
    // length <= 2 only.
    struct Part {
        runs: u64,
        flush_ok: u64,
        close_ok: u64,
        backpressure: u64,
        dev_hit: u64,
        ops: u64,
        io_calls: u64,
        vios: Vec<Violation>,
    }
    let work: Vec<(usize, usize)> = (0..size_lists.len()).flat_map(|s| (0..run_lists.len()).map(move |l| (s, l))).collect();
    let parts = mcutil::par_map(args.threads, &work, |_, (s, l)| {
        let mut p = Part { runs: 0, flush_ok: 0, close_ok: 0, backpressure: 0, dev_hit: 0, ops: 0, io_calls: 0, vios: vec![] };
        let sizes = &size_lists[*s];
        let ops = run_lists[*l];
        let sends = ops.iter().filter(|o| **o == Op::Send).count();
        if sends != sizes.len() {
            return p; // each op list is paired with size lists of exactly its number of sends
        }
        let has_conv = ops.iter().any(|o| matches!(o, Op::Convert(_)));
        for d in &devs {
            if d.len() >= 3 && sizes.len() > 2 {
                continue;
            }
            if has_conv && d.len() > 1 {
                continue; // conversions: at most one transport deviation
            }
            let c = Case { sizes: sizes.clone(), ops: ops.clone(), devs: d.clone(), trickle: 0 };
            p.runs += 1;
            match mcutil::quiet_catch(|| run_case(&c, false)) {
                Ok(Ok(o)) => {
                    p.flush_ok += o.flush_ok as u64;
                    p.close_ok += o.close_ok as u64;
                    p.backpressure += o.backpressure_seen as u64;
                    p.dev_hit += o.deviation_hit as u64;
                    p.ops += o.ops as u64;
                    p.io_calls += o.io_calls as u64;
                }
                Ok(Err((sig, msg))) => {
                    let full = !p.vios.iter().any(|v| v.signature == sig);
                    p.vios.push(Violation { signature: sig.to_string(), summary: msg, replay: if full { case_json(&c) } else { Value::Null } });
                }
                Err(pn) => {
                    let msg = mcutil::panic_message(&*pn);
                    if msg.contains("illegal op list") {
                        // R did not return Ready(Ok) in this run: the list is not legal under this script
                        p.runs -= 1;
                    } else {
                        p.vios.push(Violation { signature: "panic".into(), summary: msg, replay: case_json(&c) });
                    }
                }
            }
        }
        p
    });
    // slow peer: every undeviated poll_write takes only `chunk` bytes, so that one flush needs
    // tens to thousands of partial writes in a row (budgets, counters and loop bounds inside the
    // flush loop have their corners there); plain op lists, at most one further deviation
    let trickle_cfgs: Vec<(usize, Vec<usize>)> = vec![(1, vec![1, 40, 300]), (1, vec![8193]), (128, vec![1023, 8193]), (3, vec![100, 1025])];
    let mut trickle_work: Vec<(usize, Vec<usize>, usize)> = vec![];
    for (chunk, alpha) in &trickle_cfgs {
        let mut sl: Vec<Vec<usize>> = vec![];
        for a in alpha {
            sl.push(vec![*a]);
            for b in alpha {
                sl.push(vec![*a, *b]);
                if *chunk != 1 || alpha.len() > 1 {
                    for c in alpha {
                        sl.push(vec![*a, *b, *c]);
                    }
                }
            }
        }
        for sizes in sl {
            for l in 0..n_plain {
                trickle_work.push((*chunk, sizes.clone(), l));
            }
        }
    }
    let trickle_parts = mcutil::par_map(args.threads, &trickle_work, |_, (chunk, sizes, l)| {
        let mut p = Part { runs: 0, flush_ok: 0, close_ok: 0, backpressure: 0, dev_hit: 0, ops: 0, io_calls: 0, vios: vec![] };
        let ops = run_lists[*l];
        if ops.iter().filter(|o| **o == Op::Send).count() != sizes.len() {
            return p;
        }
        for d in devs.iter().filter(|d| d.len() <= 1) {
            let c = Case { sizes: sizes.clone(), ops: ops.clone(), devs: d.clone(), trickle: *chunk };
            p.runs += 1;
            match mcutil::quiet_catch(|| run_case(&c, false)) {
                Ok(Ok(o)) => {
                    p.flush_ok += o.flush_ok as u64;
                    p.close_ok += o.close_ok as u64;
                    p.backpressure += o.backpressure_seen as u64;
                    p.dev_hit += 1;
                    p.ops += o.ops as u64;
                    p.io_calls += o.io_calls as u64;
                }
                Ok(Err((sig, msg))) => {
                    let full = !p.vios.iter().any(|v| v.signature == sig);
                    p.vios.push(Violation { signature: sig.to_string(), summary: format!("{msg} [transport takes {chunk} byte(s) per write]"), replay: if full { case_json(&c) } else { Value::Null } });
                }
                Err(pn) => {
                    let msg = mcutil::panic_message(&*pn);
                    if msg.contains("illegal op list") {
                        p.runs -= 1;
                    } else {
                        p.vios.push(Violation { signature: "panic".into(), summary: msg, replay: case_json(&c) });
                    }
                }
            }
        }
        p
    });
    let trickle_runs: u64 = trickle_parts.iter().map(|p| p.runs).sum();
    rep.set("slow_peer_runs", trickle_runs);
    rep.set("slow_peer_rule", "plain op lists x item sizes {1,40,300} / {8193} at 1 byte per write, {1023,8193} at 128, {100,1025} at 3 bytes per write (up to 8193 partial writes in one flush) x at most one further transport deviation; same oracle");
    let parts: Vec<Part> = parts.into_iter().chain(trickle_parts).collect();
    let mut runs = 0;
    let (mut fo, mut co, mut bp, mut dh) = (0, 0, 0, 0);
    let (mut ops, mut ioc) = (0u64, 0u64);
    for p in parts {
        runs += p.runs;
        fo += p.flush_ok;
        co += p.close_ok;
        bp += p.backpressure;
        dh += p.dev_hit;
        ops += p.ops;
        ioc += p.io_calls;
        for v in p.vios {
            if v.replay.is_null() {
                rep.violation(Violation { replay: json!({"note": "elided"}), ..v });
            } else {
                rep.violation(v);
            }
        }
    }
    rep.set("runs_with_successful_flush", fo);
    rep.set("runs_with_successful_close", co);
    rep.set("runs_exercising_backpressure", bp);
    rep.set("runs_in_which_a_deviation_was_reached", dh);
    rep.set("states", ops + runs);
    rep.set("transitions", ops);
    rep.set("transport_calls", ioc);
    rep.set("traces_validated_against_impl", runs);
    rep.set("evaluations", runs);
    rep.set("distinct_nontrivial", dh + bp);
    rep.set("depth", depth);
    rep.set("max_deviations", max_dev);
    rep.sample(json!({"sizes": [8193, 1], "ops": ["Ready", "Send", "Ready", "Flush", "Close"], "devs": ["Write(0, Half)", "Flush(0, Pending)"]}));
    rep.sample(json!({"sizes": [1], "ops": ["Ready", "Send", "Close"], "devs": [], "expects": "close success only with the byte at the transport, flushed and shut down"}));
    rep.set("rule", format!("cases = (item size list of 1..3 items over {{1,1023,1025,8191,8193}}, BytesCodec) x (legal Sink op lists of length {depth}, or shorter ending in poll_close, with as many start_sends as items) x (transport scripts with <= {max_dev} deviations from all/Ok among the first {positions} calls of poll_write {{1 byte, half, Pending, 0, error}}, poll_flush and poll_shutdown {{Pending, error}}; 3-deviation scripts only with <= 2 items). Cases are distinct by construction; distinct_nontrivial counts cases in which a deviation was actually reached by the run, plus cases in which poll_ready was called with >= 8 KiB buffered."));
    rep.set("exhaustive", true);
    rep.assume("start_send is only called directly after poll_ready returned Ready(Ok) (Sink contract)");
    rep.finish()
}
