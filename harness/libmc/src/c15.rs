//! C15 LinesCodec frames lines exactly.
//!
//! Enumerated: every byte string of length <= N over {a, \r, \n, 0xC3, 0xA9, 0xFF}
//! (N = 7: 335 923 strings) through the real `LinesCodec::decode` (until `None`) and then
//! `decode_eof` (until `None`); every sequence of <= 3 strings of <= L chars over
//! {a, \r, \n, é} through the real encoder and back.
//! Oracle: an independent splitter written from the statement.

use actix_codec::{Decoder, Encoder, LinesCodec};
use bytes::BytesMut;
use mcutil::{json, Args, Report, Value, Violation};

const ALPHA: [u8; 6] = [b'a', b'\r', b'\n', 0xC3, 0xA9, 0xFF];

#[derive(Debug, Clone, PartialEq, Eq)]
pub enum Item {
    Line(String),
    Invalid,
}

/// Reference from the property text: split at every LF, strip one trailing CR, final
/// unterminated line (after the same CR strip) only if non-empty, invalid UTF-8 => error.
pub fn reference(input: &[u8]) -> Vec<Item> {
    let mut out = vec![];
    let mut rest = input;
    let conv = |mut line: &[u8], out: &mut Vec<Item>, terminated: bool| {
        if line.last() == Some(&b'\r') {
            line = &line[..line.len() - 1];
        }
        if !terminated && line.is_empty() {
            return;
        }
        match std::str::from_utf8(line) {
            Ok(s) => out.push(Item::Line(s.to_string())),
            Err(_) => out.push(Item::Invalid),
        }
    };
    while let Some(pos) = rest.iter().position(|b| *b == b'\n') {
        conv(&rest[..pos], &mut out, true);
        rest = &rest[pos + 1..];
    }
    conv(rest, &mut out, false);
    out
}

/// Drives the real codec the way a consumer does: `decode` until `None`, then `decode_eof`
/// until `None`. Returns the items, or a description if it fails to terminate.
pub fn real(input: &[u8]) -> Result<Vec<Item>, String> {
    real_with(input, usize::MAX)
}

/// `decode` is called at most `max_decodes` times (fewer if it says `None` earlier); the rest of
/// the buffer - complete lines included - is then left to `decode_eof` alone.
pub fn real_with(input: &[u8], max_decodes: usize) -> Result<Vec<Item>, String> {
    let mut codec = LinesCodec::default();
    let mut buf = BytesMut::from(input);
    let mut out = vec![];
    let fuel = input.len() + 3;
    let mut push = |r: std::io::Result<Option<String>>, out: &mut Vec<Item>| -> bool {
        match r {
            Ok(Some(s)) => {
                out.push(Item::Line(s));
                true
            }
            Ok(None) => false,
            Err(e) => {
                if e.kind() != std::io::ErrorKind::InvalidData {
                    out.push(Item::Line(format!("<unexpected error kind {:?}>", e.kind())));
                } else {
                    out.push(Item::Invalid);
                }
                true
            }
        }
    };
    let mut n = 0;
    while n < max_decodes && push(codec.decode(&mut buf), &mut out) {
        n += 1;
        if n > fuel {
            return Err("decode did not reach None".into());
        }
    }
    n = 0;
    while push(codec.decode_eof(&mut buf), &mut out) {
        n += 1;
        if n > fuel {
            return Err("decode_eof did not reach None".into());
        }
    }
    Ok(out)
}

/// Like `real`, but the input arrives in pieces: after each piece `decode` is called until
/// `None` (the decoder may keep state between calls), `decode_eof` after the last one.
pub fn real_chunked(parts: &[&[u8]]) -> Result<Vec<Item>, String> {
    let mut codec = LinesCodec::default();
    let mut buf = BytesMut::new();
    let mut out = vec![];
    let total: usize = parts.iter().map(|p| p.len()).sum();
    let fuel = total + 3;
    let mut conv = |r: std::io::Result<Option<String>>, out: &mut Vec<Item>| -> bool {
        match r {
            Ok(Some(s)) => {
                out.push(Item::Line(s));
                true
            }
            Ok(None) => false,
            Err(_) => {
                out.push(Item::Invalid);
                true
            }
        }
    };
    for p in parts {
        buf.extend_from_slice(p);
        let mut n = 0;
        while conv(codec.decode(&mut buf), &mut out) {
            n += 1;
            if n > fuel {
                return Err("decode did not reach None".into());
            }
        }
    }
    let mut n = 0;
    while conv(codec.decode_eof(&mut buf), &mut out) {
        n += 1;
        if n > fuel {
            return Err("decode_eof did not reach None".into());
        }
    }
    Ok(out)
}

fn check_chunked(input: &[u8], cuts: &[usize]) -> Option<Violation> {
    let mut parts: Vec<&[u8]> = vec![];
    let mut prev = 0;
    for c in cuts {
        parts.push(&input[prev..*c]);
        prev = *c;
    }
    parts.push(&input[prev..]);
    let exp = reference(input);
    let got = mcutil::quiet_catch(|| real_chunked(&parts));
    match got {
        Ok(Ok(g)) if g == exp => None,
        other => Some(Violation {
            signature: "decode:depends-on-how-the-input-is-fed".into(),
            summary: format!("LinesCodec fed {:?} in pieces cut at {:?} gives {:?}, reference {:?}", String::from_utf8_lossy(input), cuts, other.map_err(|_| "panic"), exp),
            replay: json!({"kind": "chunked", "input": input, "cuts": cuts}),
        }),
    }
}

fn items_json(v: &[Item]) -> Value {
    Value::Array(
        v.iter()
            .map(|i| match i {
                Item::Line(s) => json!(s),
                Item::Invalid => json!({"error": "InvalidData"}),
            })
            .collect(),
    )
}

fn check_decode(input: &[u8]) -> Option<Violation> {
    let exp = reference(input);
    // end of stream reached with complete lines still in the buffer: `decode_eof` alone (after 0,
    // 1 or 2 `decode` calls) must produce the same items
    for k in 0..=2usize {
        let got = mcutil::quiet_catch(|| real_with(input, k));
        if !matches!(&got, Ok(Ok(g)) if *g == exp) {
            return Some(Violation {
                signature: "decode_eof:differs-when-complete-lines-are-left-to-it".into(),
                summary: format!("input {:?}: {k} decode call(s), then decode_eof until None gives {:?}, reference {:?}", String::from_utf8_lossy(input), got.map_err(|_| "panic"), exp),
                replay: json!({"kind": "decode", "input": input, "decodes_before_eof": k}),
            });
        }
    }
    let got = mcutil::quiet_catch(|| real(input));
    let (sig, detail) = match got {
        Ok(Ok(g)) if g == exp => return None,
        Ok(Ok(g)) => {
            let sig = if g.len() != exp.len() {
                "decode:frame-count"
            } else if g.iter().zip(&exp).any(|(a, b)| matches!((a, b), (Item::Line(_), Item::Invalid) | (Item::Invalid, Item::Line(_)))) {
                "decode:utf8-verdict"
            } else {
                "decode:frame-content"
            };
            (sig.to_string(), json!({"got": items_json(&g), "expected": items_json(&exp)}))
        }
        Ok(Err(e)) => ("decode:nontermination".to_string(), json!({"got": e})),
        Err(p) => ("decode:panic".to_string(), json!({"panic": mcutil::panic_message(&*p)})),
    };
    Some(Violation {
        signature: sig,
        summary: format!("LinesCodec output differs from the reference splitter for input {:?}", String::from_utf8_lossy(input)),
        replay: json!({"kind": "decode", "input": input, "detail": detail}),
    })
}

fn check_roundtrip(strings: &[String]) -> Option<Violation> {
    let mut codec = LinesCodec::default();
    let mut dst = BytesMut::new();
    let mut expect_bytes = vec![];
    for s in strings {
        let before = dst.len();
        if Encoder::<&str>::encode(&mut codec, s.as_str(), &mut dst).is_err() {
            return Some(Violation { signature: "encode:error".into(), summary: "encode failed".into(), replay: json!({"kind":"roundtrip","strings":strings}) });
        }
        expect_bytes.extend_from_slice(s.as_bytes());
        expect_bytes.push(b'\n');
        if dst.len() != before + s.len() + 1 || dst[..] != expect_bytes[..] {
            return Some(Violation {
                signature: "encode:not-item-plus-one-LF".into(),
                summary: format!("encoding of {:?} is not the item followed by exactly one LF", s),
                replay: json!({"kind":"roundtrip","strings":strings,"encoded":dst.to_vec()}),
            });
        }
    }
    let got = match real(&dst) {
        Ok(g) => g,
        Err(e) => return Some(Violation { signature: "roundtrip:nontermination".into(), summary: e, replay: json!({"kind":"roundtrip","strings":strings}) }),
    };
    // general: the reference splitter on the encoded bytes
    let exp = reference(&dst);
    let eligible = strings.iter().all(|s| !s.contains('\n') && !s.ends_with('\r'));
    let want: Vec<Item> = strings.iter().map(|s| Item::Line(s.clone())).collect();
    if got != exp || (eligible && got != want) {
        return Some(Violation {
            signature: if eligible { "roundtrip:eligible-sequence-changed".into() } else { "roundtrip:differs-from-reference".into() },
            summary: format!("decode(encode({:?})) = {:?}", strings, got),
            replay: json!({"kind":"roundtrip","strings":strings,"got":items_json(&got),"expected":items_json(&exp)}),
        });
    }
    None
}

pub fn run(args: &Args) -> i32 {
    let mut rep = Report::new(args, "exploration");
    if let Some(p) = &args.replay {
        let r = mcutil::load_replay(p);
        let v = match r["kind"].as_str() {
            Some("chunked") => {
                let input: Vec<u8> = r["input"].as_array().unwrap().iter().map(|b| b.as_u64().unwrap() as u8).collect();
                let cuts: Vec<usize> = r["cuts"].as_array().unwrap().iter().map(|b| b.as_u64().unwrap() as usize).collect();
                check_chunked(&input, &cuts)
            }
            Some("decode") => {
                let input: Vec<u8> = r["input"].as_array().unwrap().iter().map(|b| b.as_u64().unwrap() as u8).collect();
                println!("input     {:?}", String::from_utf8_lossy(&input));
                println!("reference {:?}", reference(&input));
                println!("real      {:?}", real(&input));
                check_decode(&input)
            }
            _ => {
                let strings: Vec<String> = r["strings"].as_array().unwrap().iter().map(|s| s.as_str().unwrap().to_string()).collect();
                check_roundtrip(&strings)
            }
        };
        println!("replay verdict: {}", if v.is_some() { "violates" } else { "holds" });
        if let Some(v) = v {
            rep.violation(v);
        }
        return rep.finish();
    }

    let max_len = args.opt_usize("len", args.tier.pick(8, 10));
    // ---- decode: all byte strings of length <= max_len
    let mut lens: Vec<usize> = (0..=max_len).collect();
    lens.reverse(); // longest first for load balance
    // work items: (len, first two symbols) to parallelise
    let mut work: Vec<(usize, Vec<usize>)> = vec![];
    for &l in &lens {
        if l < 2 {
            work.push((l, vec![]));
        } else {
            for a in 0..6 {
                for b in 0..6 {
                    work.push((l, vec![a, b]));
                }
            }
        }
    }
    struct Part {
        evals: u64,
        nontrivial: u64,
        with_error: u64,
        with_cr_strip: u64,
        with_eof_line: u64,
        chunked: u64,
        vios: Vec<Violation>,
        samples: Vec<Value>,
    }
    let chunk_len = args.opt_usize("chunklen", args.tier.pick(7, 8));
    let parts = mcutil::par_map(args.threads, &work, |_, (l, prefix)| {
        let mut p = Part { evals: 0, nontrivial: 0, with_error: 0, with_cr_strip: 0, with_eof_line: 0, chunked: 0, vios: vec![], samples: vec![] };
        let free = l - prefix.len();
        let mut input = vec![0u8; *l];
        for (i, s) in prefix.iter().enumerate() {
            input[i] = ALPHA[*s];
        }
        mcutil::for_each_seq(6, free, |seq| {
            for (i, s) in seq.iter().enumerate() {
                input[prefix.len() + i] = ALPHA[*s];
            }
            p.evals += 1;
            let exp = reference(&input);
            if !exp.is_empty() {
                p.nontrivial += 1;
            }
            if exp.iter().any(|i| *i == Item::Invalid) {
                p.with_error += 1;
            }
            if input.windows(2).any(|w| w == b"\r\n") || input.last() == Some(&b'\r') {
                p.with_cr_strip += 1;
            }
            if !input.is_empty() && input.last() != Some(&b'\n') {
                p.with_eof_line += 1;
            }
            // the same bytes arriving in two or three pieces (decoder state between calls)
            if *l <= chunk_len {
                for a in 1..*l {
                    p.chunked += 1;
                    if let Some(v) = check_chunked(&input, &[a]) {
                        if !p.vios.iter().any(|x| x.signature == v.signature) {
                            p.vios.push(v);
                        }
                    }
                    for b in a + 1..*l {
                        p.chunked += 1;
                        if let Some(v) = check_chunked(&input, &[a, b]) {
                            if !p.vios.iter().any(|x| x.signature == v.signature) {
                                p.vios.push(v);
                            }
                        }
                    }
                }
            }
            if let Some(v) = check_decode(&input) {
                if p.vios.len() < 4 {
                    p.vios.push(v);
                } else {
                    // keep counting kinds cheaply
                    p.vios.push(Violation { replay: Value::Null, ..v });
                }
            }
            if p.samples.is_empty() && *l == max_len && exp.len() >= 3 && exp.contains(&Item::Invalid) {
                p.samples.push(json!({"input_bytes": input.clone(), "input_lossy": String::from_utf8_lossy(&input), "frames": items_json(&exp)}));
            }
        });
        p
    });
    let mut evals = 0;
    let mut nontrivial = 0;
    for p in parts {
        evals += p.evals;
        nontrivial += p.nontrivial;
        rep.add("chunked_feedings", p.chunked);
        rep.add("inputs_with_invalid_utf8_frame", p.with_error);
        rep.add("inputs_with_cr_strip", p.with_cr_strip);
        rep.add("inputs_with_unterminated_tail", p.with_eof_line);
        for v in p.vios {
            if v.replay.is_null() {
                // counted only; a full replay with the same signature exists already or is added now
                rep.violation(Violation { replay: json!({"kind":"decode","input":[], "note":"replay elided; see first case of this signature"}), ..v });
            } else {
                rep.violation(v);
            }
        }
        for s in p.samples {
            rep.sample(s);
        }
    }
    rep.set("decode_inputs", evals);

    // ---- long lines: a scanner that works a word / a vector at a time, or that caches a scan
    // position, has its corners beyond the short inputs above. Every length 8..=max_long of 'a'
    // filler with every byte string of length <= 3 over the alphabet at every offset: decoded
    // whole and fed in two pieces cut at the embedded bytes.
    let max_long = args.opt_usize("long", args.tier.pick(40, 72));
    let long_alpha: [u8; 6] = [b'a', b'\r', b'\n', 0xC3, 0xA9, 0xFF];
    let lens: Vec<usize> = (8..=max_long).collect();
    let long_parts = mcutil::par_map(args.threads, &lens, |_, &l| {
        let mut n = 0u64;
        let mut vios: Vec<Violation> = vec![];
        for w in 1..=3usize {
            for off in 0..=(l - w) {
                mcutil::for_each_seq(6, w, |seq| {
                    let mut input = vec![b'a'; l];
                    for (i, s) in seq.iter().enumerate() {
                        input[off + i] = long_alpha[*s];
                    }
                    n += 1;
                    for v in check_decode(&input).into_iter().chain(check_chunked(&input, &[off.max(1).min(l - 1)])).chain(check_chunked(&input, &[(off + w).min(l - 1).max(1)])) {
                        if !vios.iter().any(|y| y.signature == v.signature) {
                            vios.push(v);
                        }
                    }
                });
            }
        }
        (n, vios)
    });
    let mut long_inputs = 0;
    for (n, vios) in long_parts {
        long_inputs += n;
        for v in vios {
            rep.violation(v);
        }
    }
    rep.set("long_inputs", long_inputs);
    rep.set("long_input_rule", format!("every length 8..={max_long} of 'a' filler with every byte string of length 1..=3 over {{a,CR,LF,C3,A9,FF}} at every offset: decoded whole (and by decode_eof after 0..2 decodes) and fed in two pieces cut before / after the embedded bytes, against the reference splitter"));

    // ---- round trip: sequences of <= 3 strings of <= L chars over {a, CR, LF, é}
    let chars = ['a', '\r', '\n', 'é'];
    let l = args.opt_usize("rtlen", args.tier.pick(2, 3));
    let mut strings: Vec<String> = vec![];
    for len in 0..=l {
        mcutil::for_each_seq(4, len, |seq| strings.push(seq.iter().map(|i| chars[*i]).collect()));
    }
    let n = strings.len();
    let idx: Vec<usize> = (0..n).collect();
    let rt = mcutil::par_map(args.threads, &idx, |_, &i| {
        let mut cnt = 0u64;
        let mut elig = 0u64;
        let mut vios = vec![];
        let mut seqs: Vec<Vec<String>> = vec![vec![strings[i].clone()]];
        if i == 0 {
            seqs.push(vec![]);
        }
        for j in 0..n {
            seqs.push(vec![strings[i].clone(), strings[j].clone()]);
        }
        for s in &seqs {
            cnt += 1;
            if s.iter().all(|s| !s.contains('\n') && !s.ends_with('\r')) {
                elig += 1;
            }
            if let Some(v) = check_roundtrip(s) {
                vios.push(v);
            }
        }
        for j in 0..n {
            for k in 0..n {
                let s = [strings[i].clone(), strings[j].clone(), strings[k].clone()];
                cnt += 1;
                if s.iter().all(|s| !s.contains('\n') && !s.ends_with('\r')) {
                    elig += 1;
                }
                if let Some(v) = check_roundtrip(&s) {
                    if vios.len() < 3 {
                        vios.push(v);
                    }
                }
            }
        }
        (cnt, elig, vios)
    });
    let mut rt_cnt = 0;
    let mut rt_elig = 0;
    for (c, e, vios) in rt {
        rt_cnt += c;
        rt_elig += e;
        for v in vios {
            rep.violation(v);
        }
    }
    rep.set("roundtrip_sequences", rt_cnt);
    rep.set("roundtrip_sequences_eligible_for_identity", rt_elig);
    rep.sample(json!({"roundtrip": ["a\r\né", "", "é"], "note": "ineligible (contains LF): compared with the reference splitter only"}));
    let chunked = rep.get_u64("chunked_feedings");
    rep.set("evaluations", evals + rt_cnt + chunked);
    rep.set("distinct_nontrivial", nontrivial + rt_elig);
    rep.set("rule", format!("every byte string of length 0..={max_len} over {{a,CR,LF,C3,A9,FF}} decoded by the real LinesCodec (decode until None, decode_eof until None) and compared with an independent splitter; every string of length <= {chunk_len} additionally fed in every 2- and 3-piece split (decode until None after each piece); every sequence of <=3 strings of <={l} chars over {{a,CR,LF,e-acute}} encoded and decoded back. Inputs are distinct by construction; non-trivial = the reference yields at least one frame or error (decode part) / the sequence is eligible for the identity round trip (round-trip part)."));
    rep.set("exhaustive", true);
    rep.assume("the reference splitter (25 lines, c15.rs::reference) states the property correctly: final unterminated line is reported when non-empty after stripping one trailing CR");
    rep.finish()
}
