//! C17 Counter and LocalWaker: capacity gate with a guaranteed wake on release.
//!
//! Enumerated: for capacities 0..=3, every operation sequence up to the depth bound over
//! {get via handle h, drop live guard j, available(handle h, waker w), clone}, executed on
//! the real `actix_utils::counter::Counter`; every sequence up to length 8 over
//! {register w0, register w1, wake, take+drop, take+wake} on the real `LocalWaker`.
//! Oracle: a counting reference (live guards, last waker answered "unavailable").

use std::task::Context;

use actix_utils::counter::{Counter, CounterGuard};
use local_waker::LocalWaker;
use mcutil::{json, Args, CountWaker, Report, Value, Violation};

#[derive(Debug, Clone, Copy, PartialEq, Eq)]
enum Op {
    Get(usize),
    Drop(usize),
    Avail(usize, usize),
    Clone,
    /// `{:?}` of the counter into a sink that fails after this many bytes (usize::MAX: never)
    Debug(usize),
}

fn op_json(o: &Op) -> Value {
    match o {
        Op::Get(h) => json!({"get": h}),
        Op::Drop(j) => json!({"drop": j}),
        Op::Avail(h, w) => json!({"available": {"handle": h, "waker": w}}),
        Op::Clone => json!("clone"),
        Op::Debug(k) => json!({"debug_into_sink_failing_after": k}),
    }
}

fn op_from(v: &Value) -> Op {
    if v.as_str() == Some("clone") {
        Op::Clone
    } else if let Some(k) = v.get("debug_into_sink_failing_after") {
        Op::Debug(k.as_u64().unwrap() as usize)
    } else if let Some(h) = v.get("get") {
        Op::Get(h.as_u64().unwrap() as usize)
    } else if let Some(j) = v.get("drop") {
        Op::Drop(j.as_u64().unwrap() as usize)
    } else {
        let a = &v["available"];
        Op::Avail(a["handle"].as_u64().unwrap() as usize, a["waker"].as_u64().unwrap() as usize)
    }
}

struct Sys {
    handles: Vec<Counter>,
    guards: Vec<CounterGuard>,
    wakers: [std::sync::Arc<CountWaker>; 2],
    // reference model
    cap: usize,
    parked: Option<usize>,
    extra_wakes: u64,
    debugged: bool,
}

impl Sys {
    fn new(cap: usize) -> Sys {
        Sys { handles: vec![Counter::new(cap)], guards: vec![], wakers: [CountWaker::new(0), CountWaker::new(1)], cap, parked: None, extra_wakes: 0, debugged: false }
    }

    /// Applies one op to the real object and to the reference; returns a complaint if they differ.
    fn step(&mut self, op: Op) -> Option<(&'static str, String)> {
        let live_before = self.guards.len();
        let mut expect_wake: Option<usize> = None;
        match op {
            Op::Get(h) => {
                let g = self.handles[h].get();
                self.guards.push(g);
            }
            Op::Drop(j) => {
                let g = self.guards.remove(j);
                drop(g);
                if live_before == self.cap {
                    expect_wake = self.parked.take();
                }
            }
            Op::Avail(h, w) => {
                let waker = self.wakers[w].waker();
                let cx = Context::from_waker(&waker);
                let got = self.handles[h].available(&cx);
                let want = live_before < self.cap;
                if !want {
                    self.parked = Some(w);
                }
                if got != want {
                    return Some(("available-value", format!("available() = {got} with {live_before} live guards, capacity {}", self.cap)));
                }
            }
            Op::Clone => {
                let c = self.handles[0].clone();
                self.handles.push(c);
            }
            Op::Debug(k) => {
                self.debugged = true;
                use std::fmt::Write as _;
                let mut sink = FailingSink(k);
                let _ = write!(sink, "{:?}", self.handles[0]);
            }
        }
        for h in &self.handles {
            if h.total() != self.guards.len() {
                return Some(("total", format!("total() = {} with {} live guards", h.total(), self.guards.len())));
            }
        }
        for w in 0..2 {
            let got = self.wakers[w].take();
            if expect_wake == Some(w) && got == 0 {
                return Some(("missing-wake", format!("waker {w} woken 0 time(s), expected a wake-up, after {:?} (live before {live_before}, capacity {})", op, self.cap)));
            }
            if expect_wake != Some(w) && got > 0 {
                // an extra wake-up is not forbidden by the property: the woken task polls again.
                // The registered waker is consumed by it, so the reference forgets it too.
                self.extra_wakes += 1;
                if self.parked == Some(w) {
                    self.parked = None;
                }
            }
        }
        None
    }

    fn enabled(&self, max_live: usize) -> Vec<Op> {
        let mut v = vec![];
        if self.guards.len() < max_live {
            for h in 0..self.handles.len() {
                v.push(Op::Get(h));
            }
        }
        for j in 0..self.guards.len() {
            v.push(Op::Drop(j));
        }
        for h in 0..self.handles.len() {
            for w in 0..2 {
                v.push(Op::Avail(h, w));
            }
        }
        if self.handles.len() < 2 {
            v.push(Op::Clone);
        }
        if self.parked.is_some() && !self.debugged {
            // looking at a counter on which a task is parked (once per history is enough)
            v.push(Op::Debug(0));
            v.push(Op::Debug(30));
        }
        v
    }
}

fn replay_seq(cap: usize, seq: &[Op]) -> (Sys, Option<(usize, &'static str, String)>) {
    let mut s = Sys::new(cap);
    for (i, op) in seq.iter().enumerate() {
        if let Some((sig, msg)) = s.step(*op) {
            return (s, Some((i, sig, msg)));
        }
    }
    (s, None)
}

struct Stats {
    seqs: u64,
    wakes: u64,
    unavailable_answers: u64,
    vios: mcutil::VioBag,
    sample: Option<Value>,
}

fn dfs(cap: usize, seq: &mut Vec<Op>, depth: usize, st: &mut Stats) {
    let (sys, bad) = replay_seq(cap, seq);
    st.seqs += 1;
    if let Some((i, sig, msg)) = bad {
        // only report at the node where the failing op is the last one (minimal history)
        if i + 1 == seq.len() {
            let sig = format!("counter:{sig}");
            st.vios.add(&sig, || Violation {
                signature: sig.clone(),
                summary: format!("capacity {cap}: {msg}"),
                replay: json!({"kind": "counter", "capacity": cap, "ops": seq.iter().map(op_json).collect::<Vec<_>>()}),
            });
        }
        return;
    }
    if seq.len() == depth {
        if st.sample.is_none() && seq.iter().filter(|o| matches!(o, Op::Drop(_))).count() >= 2 && seq.iter().any(|o| matches!(o, Op::Avail(..))) {
            st.sample = Some(json!({"capacity": cap, "ops": seq.iter().map(op_json).collect::<Vec<_>>()}));
        }
        return;
    }
    for op in sys.enabled(cap + 2) {
        drop_count(&sys, op, st);
        seq.push(op);
        dfs(cap, seq, depth, st);
        seq.pop();
    }
}

fn drop_count(sys: &Sys, op: Op, st: &mut Stats) {
    match op {
        Op::Drop(_) if sys.guards.len() == sys.cap && sys.parked.is_some() => st.wakes += 1,
        Op::Avail(..) if sys.guards.len() >= sys.cap => st.unavailable_answers += 1,
        _ => {}
    }
}

// ---- re-entrant wakers ---------------------------------------------------------------------
//
// A waker whose `wake` acts at once (it asks `available` again inline, or releases a guard its
// task owns) and a task whose last handle is the counter's registration (so replacing the
// registration drops the task, and with it a guard). Checked with invariants instead of exact
// wake counts: `total` = live guards; every `available` answer = (live < capacity) at that
// moment; and nobody who was answered "unavailable" and has not been woken since sleeps next
// to a free slot.

#[derive(Clone, Copy, Debug, PartialEq, Eq)]
enum ReMode {
    /// `wake` asks `available` again at once, with the same task's waker
    RequeryInWake,
    /// `wake` releases the guard the task owns
    ReleaseInWake,
    /// the guard the task owns is released when the last handle to the task is dropped
    ReleaseOnLastDrop,
}

#[derive(Default)]
struct ReTl {
    counter: std::cell::RefCell<Option<Counter>>,
    cap: std::cell::Cell<usize>,
    live: std::cell::Cell<usize>,
    owned: std::cell::RefCell<Option<CounterGuard>>,
    mode: std::cell::Cell<Option<ReMode>>,
    handles: std::cell::Cell<usize>,
    /// who was last answered "unavailable" and has not been woken since: 0/1 counting wakers, 2 = the task
    parked: std::cell::Cell<Option<usize>>,
    complaint: std::cell::RefCell<Option<(&'static str, String)>>,
    in_wake: std::cell::Cell<bool>,
}

thread_local! {
    static RE: ReTl = ReTl::default();
}

struct ReW;

fn re_waker() -> std::task::Waker {
    RE.with(|r| r.handles.set(r.handles.get() + 1));
    std::task::Waker::from(std::sync::Arc::new(ReW))
}

fn re_release_owned() {
    let g = RE.with(|r| r.owned.borrow_mut().take());
    if let Some(g) = g {
        RE.with(|r| r.live.set(r.live.get() - 1));
        drop(g);
    }
}

fn re_complain(sig: &'static str, msg: String) {
    RE.with(|r| {
        let mut c = r.complaint.borrow_mut();
        if c.is_none() {
            *c = Some((sig, msg));
        }
    });
}

impl std::task::Wake for ReW {
    fn wake(self: std::sync::Arc<Self>) {
        let (mode, nested) = RE.with(|r| (r.mode.get(), r.in_wake.replace(true)));
        RE.with(|r| {
            if r.parked.get() == Some(2) {
                r.parked.set(None);
            }
        });
        if !nested {
            match mode {
                Some(ReMode::RequeryInWake) => {
                    let c = RE.with(|r| r.counter.borrow().clone());
                    if let Some(c) = c {
                        let w = re_waker();
                        let (live, cap) = RE.with(|r| (r.live.get(), r.cap.get()));
                        let got = c.available(&Context::from_waker(&w));
                        if got != (live < cap) {
                            re_complain("available-value:asked-from-inside-a-wake-up", format!("available() asked from inside the wake-up answered {got} with {live} live guards, capacity {cap}"));
                        }
                        if !got {
                            RE.with(|r| r.parked.set(Some(2)));
                        }
                    }
                }
                Some(ReMode::ReleaseInWake) => re_release_owned(),
                _ => {}
            }
        }
        RE.with(|r| r.in_wake.set(nested));
    }
}

impl Drop for ReW {
    fn drop(&mut self) {
        let last = RE.with(|r| {
            r.handles.set(r.handles.get().saturating_sub(1));
            r.handles.get() == 0
        });
        if last && RE.with(|r| r.mode.get()) == Some(ReMode::ReleaseOnLastDrop) {
            re_release_owned();
        }
    }
}

#[derive(Debug, Clone, Copy, PartialEq, Eq)]
enum ReOp {
    Get,
    Drop(usize),
    /// counting waker w asks
    Avail(usize),
    /// the task asks (and drops its own handle afterwards: the registration may be the last one)
    AvailTask,
    /// live guard j becomes the task's
    Give(usize),
}

fn re_run(cap: usize, mode: ReMode, seq: &[ReOp]) -> (Option<(usize, &'static str, String)>, Vec<ReOp>) {
    RE.with(|r| {
        *r.counter.borrow_mut() = Some(Counter::new(cap));
        r.cap.set(cap);
        r.live.set(0);
        *r.owned.borrow_mut() = None;
        r.mode.set(Some(mode));
        r.handles.set(0);
        r.parked.set(None);
        *r.complaint.borrow_mut() = None;
        r.in_wake.set(false);
    });
    let counter = RE.with(|r| r.counter.borrow().clone().unwrap());
    let wk = [CountWaker::new(0), CountWaker::new(1)];
    let mut guards: Vec<CounterGuard> = vec![];
    let mut bad = None;
    for (i, op) in seq.iter().enumerate() {
        match *op {
            ReOp::Get => {
                guards.push(counter.get());
                RE.with(|r| r.live.set(r.live.get() + 1));
            }
            ReOp::Drop(j) => {
                let g = guards.remove(j);
                RE.with(|r| r.live.set(r.live.get() - 1));
                drop(g);
            }
            ReOp::Give(j) => {
                let g = guards.remove(j);
                RE.with(|r| *r.owned.borrow_mut() = Some(g));
            }
            ReOp::Avail(w) => {
                let (live, capv) = RE.with(|r| (r.live.get(), r.cap.get()));
                let waker = wk[w].waker();
                let got = counter.available(&Context::from_waker(&waker));
                if got != (live < capv) {
                    re_complain("available-value", format!("available() = {got} with {live} live guards, capacity {capv}"));
                }
                if !got {
                    RE.with(|r| r.parked.set(Some(w)));
                }
            }
            ReOp::AvailTask => {
                let (live, capv) = RE.with(|r| (r.live.get(), r.cap.get()));
                let waker = re_waker();
                let got = counter.available(&Context::from_waker(&waker));
                if got != (live < capv) {
                    re_complain("available-value", format!("available() = {got} with {live} live guards, capacity {capv}"));
                }
                if !got {
                    RE.with(|r| r.parked.set(Some(2)));
                }
                drop(waker);
            }
        }
        // counting wakers that were woken are not parked any more
        for w in 0..2 {
            if wk[w].take() > 0 && RE.with(|r| r.parked.get()) == Some(w) {
                RE.with(|r| r.parked.set(None));
            }
        }
        let (live, capv, parked) = RE.with(|r| (r.live.get(), r.cap.get(), r.parked.get()));
        if counter.total() != live {
            re_complain("total", format!("total() = {} with {live} live guards", counter.total()));
        }
        if let Some(w) = parked {
            if live < capv {
                re_complain("missing-wake:re-entrant", format!("{} was answered 'unavailable', has not been woken since, and now {live} guard(s) are alive with capacity {capv}: it sleeps next to a free slot", if w == 2 { "the task".to_string() } else { format!("waker {w}") }));
            }
        }
        if let Some((sig, msg)) = RE.with(|r| r.complaint.borrow_mut().take()) {
            bad = Some((i, sig, msg));
            break;
        }
    }
    // enabled ops for the next step
    let owned = RE.with(|r| r.owned.borrow().is_some());
    let mut en = vec![];
    if guards.len() + (owned as usize) < cap + 2 {
        en.push(ReOp::Get);
    }
    for j in 0..guards.len() {
        en.push(ReOp::Drop(j));
    }
    if !owned && mode != ReMode::RequeryInWake {
        for j in 0..guards.len().min(1) {
            en.push(ReOp::Give(j));
        }
    }
    en.push(ReOp::Avail(0));
    en.push(ReOp::Avail(1));
    en.push(ReOp::AvailTask);
    // take the world apart in a defined order
    drop(guards);
    RE.with(|r| {
        r.mode.set(None);
    });
    let g = RE.with(|r| r.owned.borrow_mut().take());
    drop(g);
    RE.with(|r| *r.counter.borrow_mut() = None);
    drop(counter);
    (bad, en)
}

fn re_dfs(cap: usize, mode: ReMode, seq: &mut Vec<ReOp>, depth: usize, bag: &mut mcutil::VioBag, n: &mut u64) {
    let (bad, en) = re_run(cap, mode, seq);
    *n += 1;
    if let Some((i, sig, msg)) = bad {
        if i + 1 == seq.len() {
            let sig = format!("counter:{sig}");
            bag.add(&sig, || Violation {
                signature: sig.clone(),
                summary: format!("capacity {cap}, re-entrant waker {:?}: {msg} [ops {:?}]", mode, seq),
                replay: json!({"kind": "counter-reentrant", "capacity": cap, "mode": format!("{:?}", mode), "ops": seq.iter().map(|o| format!("{:?}", o)).collect::<Vec<_>>()}),
            });
        }
        return;
    }
    if seq.len() == depth {
        return;
    }
    for op in en {
        seq.push(op);
        re_dfs(cap, mode, seq, depth, bag, n);
        seq.pop();
    }
}

fn reop_from(s: &str) -> ReOp {
    let num = |s: &str| -> usize { s.chars().filter(|c| c.is_ascii_digit()).collect::<String>().parse().unwrap_or(0) };
    if s == "Get" {
        ReOp::Get
    } else if s == "AvailTask" {
        ReOp::AvailTask
    } else if s.starts_with("Drop") {
        ReOp::Drop(num(s))
    } else if s.starts_with("Give") {
        ReOp::Give(num(s))
    } else {
        ReOp::Avail(num(s))
    }
}

// ---- LocalWaker --------------------------------------------------------------------------

/// A `fmt::Write` sink that accepts at most this many bytes.
struct FailingSink(usize);
impl std::fmt::Write for FailingSink {
    fn write_str(&mut self, s: &str) -> std::fmt::Result {
        if s.len() > self.0 {
            self.0 = 0;
            return Err(std::fmt::Error);
        }
        self.0 -= s.len();
        Ok(())
    }
}

fn local_waker_seq(seq: &[usize]) -> Option<(&'static str, String)> {
    let lw = LocalWaker::new();
    let wk = [CountWaker::new(0), CountWaker::new(1)];
    let mut slot: Option<usize> = None;
    for (i, op) in seq.iter().enumerate() {
        let mut expect = [0usize; 2];
        match *op {
            0 | 1 => {
                let got = lw.register(&wk[*op].waker());
                if got != slot.is_some() {
                    return Some(("localwaker:register-return", format!("op {i}: register returned {got}, a waker was {}registered", if slot.is_some() { "" } else { "not " })));
                }
                slot = Some(*op);
            }
            2 => {
                lw.wake();
                if let Some(w) = slot.take() {
                    expect[w] = 1;
                }
            }
            5 | 6 | 7 => {
                // `{:?}` of the LocalWaker into a sink that works (5), fails at once (6) or fails
                // after 12 bytes (7): looking at it does not change it
                use std::fmt::Write as _;
                let mut sink = FailingSink(match *op { 5 => usize::MAX, 6 => 0, _ => 12 });
                let _ = write!(sink, "{:?}", lw);
            }
            3 | 4 => {
                let t = lw.take();
                if t.is_some() != slot.is_some() {
                    return Some(("localwaker:take-return", format!("op {i}: take returned {:?}", t.is_some())));
                }
                if let Some(w) = slot.take() {
                    if *op == 4 {
                        t.unwrap().wake();
                        expect[w] = 1;
                    }
                }
            }
            _ => unreachable!(),
        }
        for w in 0..2 {
            let got = wk[w].take();
            if got != expect[w] {
                return Some((if got < expect[w] { "localwaker:missing-wake" } else { "localwaker:spurious-or-misdirected-wake" }, format!("op {i} of {:?}: waker {w} woken {got}x, expected {}x", seq, expect[w])));
            }
        }
    }
    None
}

pub fn run(args: &Args) -> i32 {
    let mut rep = Report::new(args, "model_checking");
    if let Some(p) = &args.replay {
        let r = mcutil::load_replay(p);
        let bad = if r["kind"] == "counter-reentrant" {
            let cap = r["capacity"].as_u64().unwrap() as usize;
            let mode = match r["mode"].as_str().unwrap() { "RequeryInWake" => ReMode::RequeryInWake, "ReleaseInWake" => ReMode::ReleaseInWake, _ => ReMode::ReleaseOnLastDrop };
            let ops: Vec<ReOp> = r["ops"].as_array().unwrap().iter().map(|o| reop_from(o.as_str().unwrap())).collect();
            println!("capacity {cap} mode {:?} ops {:?}", mode, ops);
            re_run(cap, mode, &ops).0.map(|(i, s, m)| (s, format!("op {i}: {m}")))
        } else if r["kind"] == "counter" {
            let cap = r["capacity"].as_u64().unwrap() as usize;
            let ops: Vec<Op> = r["ops"].as_array().unwrap().iter().map(op_from).collect();
            println!("capacity {cap} ops {:?}", ops);
            replay_seq(cap, &ops).1.map(|(i, s, m)| (s, format!("op {i}: {m}")))
        } else {
            let seq: Vec<usize> = r["ops"].as_array().unwrap().iter().map(|v| v.as_u64().unwrap() as usize).collect();
            local_waker_seq(&seq)
        };
        println!("replay verdict: {}", match &bad { Some((s, m)) => format!("violates ({s}: {m})"), None => "holds".into() });
        if let Some((s, m)) = bad {
            rep.violation(Violation { signature: s.to_string(), summary: m, replay: r });
        }
        return rep.finish();
    }

    let depth = args.opt_usize("depth", args.tier.pick(9, 11));
    // work items: capacity x first two ops
    let mut work: Vec<(usize, Vec<Op>)> = vec![];
    for cap in 0..=3usize {
        let s0 = Sys::new(cap);
        for a in s0.enabled(cap + 2) {
            let (s1, _) = replay_seq(cap, &[a]);
            for b in s1.enabled(cap + 2) {
                let (s2, _) = replay_seq(cap, &[a, b]);
                for c in s2.enabled(cap + 2) {
                    work.push((cap, vec![a, b, c]));
                }
            }
        }
    }
    let parts = mcutil::par_map(args.threads, &work, |_, (cap, prefix)| {
        let mut st = Stats { seqs: 0, wakes: 0, unavailable_answers: 0, vios: Default::default(), sample: None };
        let mut seq = prefix.clone();
        dfs(*cap, &mut seq, depth, &mut st);
        st
    });
    // the prefixes shorter than 3 (root, length 1, length 2) are checked here
    let mut short = 0u64;
    for cap in 0..=3usize {
        let mut st = Stats { seqs: 0, wakes: 0, unavailable_answers: 0, vios: Default::default(), sample: None };
        dfs(cap, &mut vec![], 2.min(depth), &mut st);
        short += st.seqs;
        st.vios.drain_into(&mut rep);
    }
    let mut seqs = short;
    let mut wakes = 0;
    let mut unav = 0;
    for st in parts {
        seqs += st.seqs;
        wakes += st.wakes;
        unav += st.unavailable_answers;
        st.vios.drain_into(&mut rep);
        if let Some(s) = st.sample {
            rep.sample(s);
        }
    }
    // re-entrant wakers
    let re_depth = args.opt_usize("redepth", args.tier.pick(6, 8));
    let mut re_work = vec![];
    for cap in 0..=2usize {
        for mode in [ReMode::RequeryInWake, ReMode::ReleaseInWake, ReMode::ReleaseOnLastDrop] {
            re_work.push((cap, mode));
        }
    }
    let re_parts = mcutil::par_map(args.threads, &re_work, |_, (cap, mode)| {
        let mut bag = mcutil::VioBag::default();
        let mut n = 0u64;
        re_dfs(*cap, *mode, &mut vec![], re_depth, &mut bag, &mut n);
        (bag, n)
    });
    let mut re_seqs = 0u64;
    for (bag, n) in re_parts {
        re_seqs += n;
        bag.drain_into(&mut rep);
    }
    rep.set("counter_sequences_with_a_reentrant_waker", re_seqs);
    rep.set("counter_reentrant_depth", re_depth);
    // LocalWaker
    let lw_len = args.tier.pick(7, 8);
    let mut lw_seqs = 0u64;
    let mut lw_wakes = 0u64;
    for len in 0..=lw_len {
        mcutil::for_each_seq(8, len, |seq| {
            lw_seqs += 1;
            if seq.windows(2).any(|w| w[0] < 2 && (w[1] == 2 || w[1] == 4)) {
                lw_wakes += 1;
            }
            if let Some((sig, msg)) = local_waker_seq(seq) {
                rep.violation(Violation { signature: sig.to_string(), summary: msg, replay: json!({"kind": "localwaker", "ops": seq}) });
            }
        });
    }
    rep.sample(json!({"localwaker_ops": ["register(w0)", "register(w1)", "wake", "take+wake"], "expect": "register returns false,true; wake wakes w1 once; take returns None"}));
    rep.set("counter_sequences", seqs);
    rep.set("counter_depth", depth);
    rep.set("counter_transitions_expecting_a_wake", wakes);
    rep.set("counter_unavailable_answers", unav);
    rep.set("localwaker_sequences", lw_seqs);
    rep.set("localwaker_sequences_with_a_wake", lw_wakes);
    rep.set("states", seqs + lw_seqs);
    rep.set("transitions", seqs + lw_seqs - 5);
    rep.set("traces_validated_against_impl", seqs + lw_seqs);
    rep.set("evaluations", seqs + lw_seqs);
    rep.set("distinct_nontrivial", wakes + lw_wakes);
    rep.set("rule", format!("Counter: capacities 0..=3, every op sequence of length <= {depth} over get(handle 0|1) [while live < capacity+2], drop(any live guard), available(handle 0|1, waker 0|1), clone [once]; each sequence (node of the op tree) re-executed from a fresh Counter, values and per-waker wake counts compared with the counting reference after every op. LocalWaker: every sequence of length <= {lw_len} over register(w0), register(w1), wake, take+drop, take+wake. distinct_nontrivial counts distinct (sequence, next op) pairs in which the reference expects a wake-up to be delivered (Counter) plus distinct LocalWaker sequences containing a delivered wake."));
    rep.set("exhaustive", true);
    rep.assume("guards are interchangeable tokens; the reference wakes only the waker of the most recent `available -> false`");
    rep.finish()
}
