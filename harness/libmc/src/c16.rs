//! C16 local-channel: FIFO, exactly once, clean closure, no lost wake-up.
//!
//! Enumerated: every operation sequence up to the depth bound over
//! {send(i), clone(i), drop_sender(i), close(i), poll, poll_b (a second task's waker), sender_from_receiver, drop_receiver}
//! with at most 3 live senders, on the real `local_channel::mpsc` channel, each sequence
//! re-executed from a fresh channel (no state merging).
//! Oracle: a queue + flags reference; a parked receiver must have been woken (>= 1 wake) after
//! the next send, the drop of the last sender, and close.

use std::{
    collections::VecDeque,
    pin::Pin,
    task::{Context, Poll},
};

use futures_core::Stream;
use local_channel::mpsc::{channel, Receiver, Sender};
use mcutil::{json, Args, CountWaker, Report, Value, Violation};

#[derive(Debug, Clone, Copy, PartialEq, Eq)]
enum Op {
    Send(usize),
    CloneS(usize),
    DropS(usize),
    Close(usize),
    Poll,
    /// poll from another task: a different waker
    PollB,
    SenderFromReceiver,
    DropReceiver,
}

fn op_json(o: &Op) -> Value {
    match o {
        Op::Send(i) => json!({"send": i}),
        Op::CloneS(i) => json!({"clone": i}),
        Op::DropS(i) => json!({"drop_sender": i}),
        Op::Close(i) => json!({"close": i}),
        Op::Poll => json!("poll"),
        Op::PollB => json!("poll_b"),
        Op::SenderFromReceiver => json!("sender_from_receiver"),
        Op::DropReceiver => json!("drop_receiver"),
    }
}

fn op_from(v: &Value) -> Op {
    match v.as_str() {
        Some("poll") => return Op::Poll,
        Some("poll_b") => return Op::PollB,
        Some("sender_from_receiver") => return Op::SenderFromReceiver,
        Some("drop_receiver") => return Op::DropReceiver,
        _ => {}
    }
    let o = v.as_object().unwrap();
    let (k, i) = o.iter().next().unwrap();
    let i = i.as_u64().unwrap() as usize;
    match k.as_str() {
        "send" => Op::Send(i),
        "clone" => Op::CloneS(i),
        "drop_sender" => Op::DropS(i),
        "close" => Op::Close(i),
        _ => panic!("bad op"),
    }
}

struct Sys {
    senders: Vec<Sender<u32>>,
    receiver: Option<Receiver<u32>>,
    waker: std::sync::Arc<CountWaker>,
    waker_b: std::sync::Arc<CountWaker>,
    /// the waker of the most recent poll that returned Pending was the second one
    parked_b: bool,
    next_msg: u32,
    // reference
    queue: VecDeque<u32>,
    closed: bool,
    parked: bool,
    pub polls_pending: u32,
}

impl Sys {
    fn new() -> Sys {
        let (tx, rx) = channel::<u32>();
        Sys { senders: vec![tx], receiver: Some(rx), waker: CountWaker::new(0), waker_b: CountWaker::new(1), parked_b: false, next_msg: 1, queue: VecDeque::new(), closed: false, parked: false, polls_pending: 0 }
    }

    fn enabled(&self, max_senders: usize) -> Vec<Op> {
        let mut v = vec![];
        let s = self.senders.len();
        for i in 0..s {
            v.push(Op::Send(i));
        }
        if s < max_senders {
            for i in 0..s {
                v.push(Op::CloneS(i));
            }
        }
        for i in 0..s {
            v.push(Op::DropS(i));
        }
        for i in 0..s {
            v.push(Op::Close(i));
        }
        if self.receiver.is_some() {
            v.push(Op::Poll);
            v.push(Op::PollB);
            if s < max_senders {
                v.push(Op::SenderFromReceiver);
            }
            v.push(Op::DropReceiver);
        }
        v
    }

    fn step(&mut self, op: Op) -> Option<(&'static str, String)> {
        let mut expect_wake = false;
        match op {
            Op::Send(i) => {
                let m = self.next_msg;
                self.next_msg += 1;
                let want_ok = !self.closed && self.receiver.is_some();
                // alternate between the inherent method and the Sink interface
                let got = if m % 2 == 0 {
                    self.senders[i].send(m)
                } else {
                    futures_sink::Sink::start_send(Pin::new(&mut self.senders[i]), m)
                };
                match (want_ok, got) {
                    (true, Ok(())) => {
                        self.queue.push_back(m);
                        if self.parked {
                            expect_wake = true;
                            self.parked = false;
                        }
                    }
                    (false, Err(e)) => {
                        if e.into_inner() != m {
                            return Some(("send:error-returns-other-item", "SendError does not carry the rejected item".into()));
                        }
                    }
                    (true, Err(_)) => return Some(("send:fails-on-open-channel", "send failed although the receiver is alive and the channel is open".into())),
                    (false, Ok(())) => {
                        return Some((
                            if self.closed { "send:ok-after-close" } else { "send:ok-after-receiver-drop" },
                            "send succeeded on a closed channel / dropped receiver".into(),
                        ))
                    }
                }
            }
            Op::CloneS(i) => {
                let c = self.senders[i].clone();
                self.senders.push(c);
            }
            Op::DropS(i) => {
                let s = self.senders.remove(i);
                drop(s);
                if self.senders.is_empty() && self.parked && self.receiver.is_some() {
                    expect_wake = true;
                    self.parked = false;
                }
            }
            Op::Close(i) => {
                self.senders[i].close();
                self.closed = true;
                if self.parked && self.receiver.is_some() {
                    expect_wake = true;
                    self.parked = false;
                }
            }
            Op::Poll | Op::PollB => {
                let w = if op == Op::PollB { self.waker_b.waker() } else { self.waker.waker() };
                let mut cx = Context::from_waker(&w);
                let got = Pin::new(self.receiver.as_mut().unwrap()).poll_next(&mut cx);
                let want: Poll<Option<u32>> = if let Some(m) = self.queue.pop_front() {
                    Poll::Ready(Some(m))
                } else if self.closed || self.senders.is_empty() {
                    Poll::Ready(None)
                } else {
                    Poll::Pending
                };
                if got != want {
                    let sig = match (&want, &got) {
                        (Poll::Ready(None), Poll::Pending) if self.closed => "poll:pending-on-closed-drained-channel",
                        (Poll::Ready(None), Poll::Pending) => "poll:pending-with-no-sender-left",
                        (Poll::Ready(Some(_)), Poll::Ready(Some(_))) => "poll:wrong-message-order",
                        (Poll::Ready(Some(_)), _) => "poll:message-lost",
                        (_, Poll::Ready(Some(_))) => "poll:message-duplicated-or-invented",
                        _ => "poll:early-end-of-stream",
                    };
                    return Some((sig, format!("poll_next returned {:?}, reference {:?}", got, want)));
                }
                if got.is_pending() {
                    self.parked = true;
                    self.parked_b = op == Op::PollB;
                    self.polls_pending += 1;
                    // a wake delivered during the poll itself would be lost to the caller's bookkeeping
                }
            }
            Op::SenderFromReceiver => {
                let s = self.receiver.as_ref().unwrap().sender();
                self.senders.push(s);
            }
            Op::DropReceiver => {
                self.receiver = None;
                self.queue.clear();
                self.parked = false;
            }
        }
        // the task to wake is the one that polled last: the waker of the latest Pending poll
        let (wa, wb) = (self.waker.take(), self.waker_b.take());
        let wakes = if self.parked_b { wb } else { wa };
        if expect_wake && wakes == 0 && wa + wb > 0 {
            return Some(("wake:stale-waker", format!("receiver had returned Pending to its latest poll and {:?} woke only the waker of an earlier poll", op)));
        }
        if expect_wake && wakes == 0 {
            let sig = match op {
                Op::Send(_) => "wake:missing-after-send",
                Op::DropS(_) => "wake:missing-after-last-sender-drop",
                Op::Close(_) => "wake:missing-after-close",
                _ => "wake:missing",
            };
            return Some((sig, format!("receiver had returned Pending and was not woken by {:?}", op)));
        }
        None
    }
}

/// A panic raised by the channel itself during an operation (or while what is left of it is
/// dropped) is a verdict about the channel, not a crash of the engine.
struct Guarded(Option<Sys>);
impl std::ops::Deref for Guarded {
    type Target = Sys;
    fn deref(&self) -> &Sys {
        self.0.as_ref().unwrap()
    }
}
impl Drop for Guarded {
    fn drop(&mut self) {
        if let Some(mut s) = self.0.take() {
            // one handle at a time: a second panic while the first one unwinds would abort
            let mut bad = false;
            while let Some(tx) = s.senders.pop() {
                bad |= mcutil::quiet_catch(move || drop(tx)).is_err();
            }
            if let Some(rx) = s.receiver.take() {
                bad |= mcutil::quiet_catch(move || drop(rx)).is_err();
            }
            if bad {
                PANIC_ON_DROP.with(|p| p.set(true));
            }
        }
    }
}
thread_local! {
    static PANIC_ON_DROP: std::cell::Cell<bool> = const { std::cell::Cell::new(false) };
}

fn replay_seq(seq: &[Op]) -> (Guarded, Option<(usize, &'static str, String)>) {
    let mut s = Sys::new();
    for (i, op) in seq.iter().enumerate() {
        match mcutil::quiet_catch(|| s.step(*op)) {
            Ok(Some((sig, msg))) => return (Guarded(Some(s)), Some((i, sig, msg))),
            Ok(None) => {}
            Err(p) => {
                std::mem::forget(s);
                return (Guarded(Some(Sys::new())), Some((i, "panic", format!("operation {:?} panicked inside the channel: {}", op, mcutil::panic_message(&*p)))));
            }
        }
    }
    (Guarded(Some(s)), None)
}

struct Stats {
    seqs: u64,
    with_wake: u64,
    with_none: u64,
    vios: mcutil::VioBag,
    sample: Option<Value>,
}

fn dfs(seq: &mut Vec<Op>, depth: usize, max_senders: usize, st: &mut Stats) {
    if PANIC_ON_DROP.with(|p| p.replace(false)) {
        st.vios.add("panic-on-drop", || Violation { signature: "panic-on-drop".to_string(), summary: "dropping the remaining senders / the receiver of an explored history panicked inside the channel".into(), replay: json!({"ops": seq.iter().map(op_json).collect::<Vec<_>>(), "note": "a history explored just before this one"}) });
    }
    let (sys, bad) = replay_seq(seq);
    st.seqs += 1;
    if let Some((i, sig, msg)) = bad {
        if i + 1 == seq.len() {
            st.vios.add(sig, || Violation { signature: sig.to_string(), summary: msg, replay: json!({"ops": seq.iter().map(op_json).collect::<Vec<_>>()}) });
        }
        return;
    }
    if seq.len() == depth {
        if st.sample.is_none() && sys.polls_pending > 0 && seq.iter().any(|o| matches!(o, Op::Close(_))) {
            st.sample = Some(json!({"ops": seq.iter().map(op_json).collect::<Vec<_>>()}));
        }
        return;
    }
    for op in sys.enabled(max_senders) {
        if sys.parked && matches!(op, Op::Send(_) | Op::Close(_)) || (sys.parked && matches!(op, Op::DropS(_)) && sys.senders.len() == 1) {
            st.with_wake += 1;
        }
        if matches!(op, Op::Poll | Op::PollB) && sys.queue.is_empty() && (sys.closed || sys.senders.is_empty()) {
            st.with_none += 1;
        }
        seq.push(op);
        dfs(seq, depth, max_senders, st);
        seq.pop();
    }
}

pub fn run(args: &Args) -> i32 {
    let mut rep = Report::new(args, "model_checking");
    if let Some(p) = &args.replay {
        let r = mcutil::load_replay(p);
        let ops: Vec<Op> = r["ops"].as_array().unwrap().iter().map(op_from).collect();
        println!("ops {:?}", ops);
        let bad = replay_seq(&ops).1;
        println!("replay verdict: {}", match &bad { Some((i, s, m)) => format!("violates at op {i} ({s}: {m})"), None => "holds".into() });
        if let Some((_, s, m)) = bad {
            rep.violation(Violation { signature: s.to_string(), summary: m, replay: r });
        }
        return rep.finish();
    }
    let depth = args.opt_usize("depth", args.tier.pick(8, 10));
    let max_senders = args.opt_usize("senders", 3);
    let mut work: Vec<Vec<Op>> = vec![];
    let s0 = Sys::new();
    for a in s0.enabled(max_senders) {
        let (s1, _) = replay_seq(&[a]);
        for b in s1.enabled(max_senders) {
            let (s2, _) = replay_seq(&[a, b]);
            for c in s2.enabled(max_senders) {
                work.push(vec![a, b, c]);
            }
        }
    }
    let parts = mcutil::par_map(args.threads, &work, |_, prefix| {
        let mut st = Stats { seqs: 0, with_wake: 0, with_none: 0, vios: Default::default(), sample: None };
        let mut seq = prefix.clone();
        dfs(&mut seq, depth, max_senders, &mut st);
        st
    });
    let mut st0 = Stats { seqs: 0, with_wake: 0, with_none: 0, vios: Default::default(), sample: None };
    dfs(&mut vec![], 2.min(depth), max_senders, &mut st0);
    let mut seqs = 0;
    let mut with_wake = 0;
    let mut with_none = 0;
    for st in std::iter::once(st0).chain(parts.into_iter()) {
        seqs += st.seqs;
        with_wake += st.with_wake;
        with_none += st.with_none;
        st.vios.drain_into(&mut rep);
        if let Some(s) = st.sample {
            rep.sample(s);
        }
    }
    rep.set("sequences", seqs);
    rep.set("depth", depth);
    rep.set("max_live_senders", max_senders);
    rep.set("transitions_expecting_a_wake", with_wake);
    rep.set("polls_expecting_end_of_stream", with_none);
    rep.set("states", seqs);
    rep.set("transitions", seqs - 1);
    rep.set("traces_validated_against_impl", seqs);
    rep.set("evaluations", seqs);
    rep.set("distinct_nontrivial", with_wake + with_none);
    rep.set("rule", format!("every op sequence of length <= {depth} over send(i), clone(i), drop_sender(i), close(i), poll, sender_from_receiver, drop_receiver with <= {max_senders} live senders (ops on dead handles pruned; exploration below a diverging op stops); each node re-executed from a fresh channel; return values compared with a VecDeque+flags reference after every op, and a receiver that returned Pending must have >= 1 wake, on the waker of its latest poll, after send / last-sender drop / close. distinct_nontrivial = distinct (sequence, next op) pairs where the reference expects a wake-up or an end-of-stream answer."));
    rep.set("exhaustive", true);
    rep.assume("extra (spurious) wake-ups are allowed; only missing ones are violations");
    rep.finish()
}
