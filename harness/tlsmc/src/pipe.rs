//! In-memory duplex stream whose deliveries are decided by the explorer (DESIGN §7). Bytes
//! written by one end are "in flight" until `deliver` moves them to the peer's read side.

use std::{
    cell::RefCell,
    collections::VecDeque,
    io,
    pin::Pin,
    rc::Rc,
    task::{Context, Poll, Waker},
};

use actix_rt::net::{ActixStream, Ready};
use tokio::io::{AsyncRead, AsyncWrite, ReadBuf};

#[derive(Default)]
pub struct Dir {
    pub in_flight: VecDeque<u8>,
    pub delivered: VecDeque<u8>,
    pub eof_sent: bool,
    pub eof_delivered: bool,
    pub reader: Option<Waker>,
    /// back-pressure: the sender can have at most this many bytes unread by the peer (in flight
    /// or delivered); 0 = unbounded. A write beyond it is short or pending.
    pub capacity: usize,
    pub writer: Option<Waker>,
    /// how many separate writes the sender made (flights are counted at quiescence)
    pub writes: usize,
    pub total_written: usize,
}

#[derive(Default)]
pub struct Shared {
    /// [0] = a -> b, [1] = b -> a
    pub dir: [Dir; 2],
}

pub struct End {
    shared: Rc<RefCell<Shared>>,
    /// index of the direction this end writes to
    tx: usize,
}

#[derive(Clone)]
pub struct Control(pub Rc<RefCell<Shared>>);

pub fn pipe() -> (End, End, Control) {
    let shared = Rc::new(RefCell::new(Shared::default()));
    (End { shared: shared.clone(), tx: 0 }, End { shared: shared.clone(), tx: 1 }, Control(shared))
}

impl Dir {
    fn space(&self) -> usize {
        if self.capacity == 0 {
            usize::MAX
        } else {
            self.capacity.saturating_sub(self.in_flight.len() + self.delivered.len())
        }
    }
    fn wake_writer_if_space(&mut self) {
        if self.space() > 0 {
            if let Some(w) = self.writer.take() {
                w.wake();
            }
        }
    }
}

impl Control {
    /// Bounds what the sender of direction `d` can have outstanding (0 = unbounded).
    pub fn set_capacity(&self, d: usize, capacity: usize) {
        let mut s = self.0.borrow_mut();
        s.dir[d].capacity = capacity;
        s.dir[d].wake_writer_if_space();
    }
    pub fn in_flight(&self, d: usize) -> usize {
        self.0.borrow().dir[d].in_flight.len()
    }
    pub fn total_written(&self, d: usize) -> usize {
        self.0.borrow().dir[d].total_written
    }
    /// Moves up to `n` in-flight bytes of direction `d` to the reader and wakes it.
    pub fn deliver(&self, d: usize, n: usize) -> usize {
        let mut s = self.0.borrow_mut();
        let dir = &mut s.dir[d];
        let n = n.min(dir.in_flight.len());
        for _ in 0..n {
            let b = dir.in_flight.pop_front().unwrap();
            dir.delivered.push_back(b);
        }
        if dir.in_flight.is_empty() && dir.eof_sent {
            dir.eof_delivered = true;
        }
        if n > 0 || dir.eof_delivered {
            if let Some(w) = dir.reader.take() {
                w.wake();
            }
        }
        n
    }
    pub fn deliver_all(&self, d: usize) -> usize {
        self.deliver(d, usize::MAX)
    }
    /// Bytes that the reader of direction `d` sees without the sender having written them.
    pub fn inject(&self, d: usize, bytes: &[u8]) {
        let mut s = self.0.borrow_mut();
        s.dir[d].delivered.extend(bytes.iter().copied());
        if let Some(w) = s.dir[d].reader.take() {
            w.wake();
        }
    }
    /// Drops whatever is in flight in direction `d`.
    pub fn discard_in_flight(&self, d: usize) {
        let mut s = self.0.borrow_mut();
        s.dir[d].in_flight.clear();
        s.dir[d].wake_writer_if_space();
    }
    /// The reader of direction `d` sees end-of-stream after the delivered bytes.
    pub fn close(&self, d: usize) {
        let mut s = self.0.borrow_mut();
        s.dir[d].eof_sent = true;
        s.dir[d].eof_delivered = true;
        s.dir[d].in_flight.clear();
        if let Some(w) = s.dir[d].reader.take() {
            w.wake();
        }
        if let Some(w) = s.dir[d].writer.take() {
            w.wake();
        }
    }
}

impl AsyncRead for End {
    fn poll_read(self: Pin<&mut Self>, cx: &mut Context<'_>, buf: &mut ReadBuf<'_>) -> Poll<io::Result<()>> {
        let rx = 1 - self.tx;
        let mut s = self.shared.borrow_mut();
        let dir = &mut s.dir[rx];
        if dir.delivered.is_empty() {
            if dir.eof_delivered {
                return Poll::Ready(Ok(()));
            }
            dir.reader = Some(cx.waker().clone());
            return Poll::Pending;
        }
        let n = buf.remaining().min(dir.delivered.len());
        for _ in 0..n {
            buf.put_slice(&[dir.delivered.pop_front().unwrap()]);
        }
        dir.wake_writer_if_space();
        Poll::Ready(Ok(()))
    }
}

impl AsyncWrite for End {
    fn poll_write(self: Pin<&mut Self>, cx: &mut Context<'_>, data: &[u8]) -> Poll<io::Result<usize>> {
        let mut s = self.shared.borrow_mut();
        let dir = &mut s.dir[self.tx];
        if dir.eof_sent {
            return Poll::Ready(Err(io::Error::new(io::ErrorKind::BrokenPipe, "pipe closed")));
        }
        let n = data.len().min(dir.space());
        if n == 0 && !data.is_empty() {
            dir.writer = Some(cx.waker().clone());
            return Poll::Pending;
        }
        dir.in_flight.extend(data[..n].iter().copied());
        dir.writes += 1;
        dir.total_written += n;
        Poll::Ready(Ok(n))
    }
    fn poll_flush(self: Pin<&mut Self>, _: &mut Context<'_>) -> Poll<io::Result<()>> {
        Poll::Ready(Ok(()))
    }
    fn poll_shutdown(self: Pin<&mut Self>, _: &mut Context<'_>) -> Poll<io::Result<()>> {
        let mut s = self.shared.borrow_mut();
        s.dir[self.tx].eof_sent = true;
        Poll::Ready(Ok(()))
    }
}

impl ActixStream for End {
    fn poll_read_ready(&self, cx: &mut Context<'_>) -> Poll<io::Result<Ready>> {
        let rx = 1 - self.tx;
        let mut s = self.shared.borrow_mut();
        let dir = &mut s.dir[rx];
        if !dir.delivered.is_empty() || dir.eof_delivered {
            Poll::Ready(Ok(Ready::READABLE))
        } else {
            dir.reader = Some(cx.waker().clone());
            Poll::Pending
        }
    }
    fn poll_write_ready(&self, cx: &mut Context<'_>) -> Poll<io::Result<Ready>> {
        let mut s = self.shared.borrow_mut();
        let dir = &mut s.dir[self.tx];
        if dir.space() > 0 || dir.eof_sent {
            Poll::Ready(Ok(Ready::WRITABLE))
        } else {
            dir.writer = Some(cx.waker().clone());
            Poll::Pending
        }
    }
}

impl Drop for End {
    fn drop(&mut self) {
        // dropping an end closes its sending direction (what is in flight can still be delivered)
        if let Ok(mut s) = self.shared.try_borrow_mut() {
            s.dir[self.tx].eof_sent = true;
        }
    }
}
