//! C18 TLS acceptors bound handshake time and concurrency and carry data intact.
//!
//! (a) Handshake timing: real TLS client (tokio-rustls) against the real acceptor service over
//!     the controllable pipe under a paused clock. Default schedule = every flight delivered
//!     whole and at once; deviation-bounded exploration over {stall, split 1 byte / half,
//!     garbage, disconnect, clock advance to T/2, T-1ms, T, T+1ms} placed before every delivery.
//! (b) Concurrency limit: all op sequences up to the depth bound over {poll_ready, call,
//!     poll future i, end handshake i by timeout / garbage / drop} for limits 1..3, each limit
//!     in fresh threads (the per-thread counter is initialised once from the global).
//! (c) Payload echo through accepted streams, sizes around the 16 KiB record size, delivered
//!     whole / byte-wise / in 4 KiB pieces.

use std::{
    future::Future,
    io,
    pin::Pin,
    sync::{
        atomic::{AtomicBool, AtomicUsize, Ordering},
        Arc,
    },
    task::{Context, Poll, Wake, Waker},
    time::Duration,
};

use actix_service::{Service, ServiceFactory};
use actix_tls::accept::{openssl as acc_openssl, rustls_0_23 as acc_rustls, TlsError};
use mcutil::{json, Args, Report, Value, VioBag, Violation};
use tokio::io::{AsyncRead, AsyncReadExt, AsyncWrite, AsyncWriteExt};

use crate::{
    pipe::{pipe, Control, End},
    tlsutil::{self, Ca, Leaf},
};

pub struct Flag(AtomicBool, AtomicUsize);
impl Flag {
    pub fn new() -> Arc<Flag> {
        Arc::new(Flag(AtomicBool::new(true), AtomicUsize::new(0)))
    }
    pub fn take(&self) -> bool {
        self.0.swap(false, Ordering::SeqCst)
    }
    pub fn wakes(&self) -> usize {
        self.1.load(Ordering::SeqCst)
    }
}
impl Wake for Flag {
    fn wake(self: Arc<Self>) {
        self.0.store(true, Ordering::SeqCst);
        self.1.fetch_add(1, Ordering::SeqCst);
    }
    fn wake_by_ref(self: &Arc<Self>) {
        self.0.store(true, Ordering::SeqCst);
        self.1.fetch_add(1, Ordering::SeqCst);
    }
}

pub trait Rw: AsyncRead + AsyncWrite + Unpin {}
impl<T: AsyncRead + AsyncWrite + Unpin> Rw for T {}

#[derive(Clone, Copy, Debug, PartialEq, Eq)]
pub enum Kind {
    Rustls,
    Openssl,
}

#[derive(Debug, Clone, PartialEq, Eq)]
pub enum Res {
    Ok,
    Timeout,
    Tls(String),
}

type SrvFut = Pin<Box<dyn Future<Output = (Res, Option<Box<dyn Rw>>)>>>;

pub struct Acceptors {
    /// two services of each back-end, all built on this thread (an actix-server worker has one
    /// service per TLS listener)
    rustls: [acc_rustls::AcceptorService; 2],
    openssl: [acc_openssl::AcceptorService; 2],
}

pub struct Pki {
    pub ca: Ca,
    pub leaf: Leaf,
}

impl Pki {
    pub fn new() -> Pki {
        let ca = tlsutil::new_ca("tlsmc test CA");
        let leaf = tlsutil::new_leaf(&ca, &["localhost"]);
        Pki { ca, leaf }
    }
}

fn now_or_panic<F: Future>(f: F) -> F::Output {
    let w = Waker::from(Flag::new());
    let mut cx = Context::from_waker(&w);
    let mut f = Box::pin(f);
    match f.as_mut().poll(&mut cx) {
        Poll::Ready(v) => v,
        Poll::Pending => panic!("future expected to be ready"),
    }
}

impl Acceptors {
    pub fn new(pki: &Pki, timeout: Duration) -> Acceptors {
        let mut r = acc_rustls::Acceptor::new(tlsutil::rustls_server_config(&pki.leaf));
        r.set_handshake_timeout(timeout);
        let mut o = acc_openssl::Acceptor::new(tlsutil::openssl_acceptor(&pki.leaf));
        o.set_handshake_timeout(timeout);
        // instance 0 is built from the configured acceptor itself, instance 1 from a clone of it
        // (cloning the acceptor into a per-worker factory closure is the documented pattern)
        let (r2, o2) = (r.clone(), o.clone());
        let mk_r = |a: &acc_rustls::Acceptor| now_or_panic(ServiceFactory::<End>::new_service(a, ())).unwrap();
        let rustls = [mk_r(&r), mk_r(&r2)];
        let mk_o = |a: &acc_openssl::Acceptor| now_or_panic(ServiceFactory::<End>::new_service(a, ())).unwrap();
        let openssl = [mk_o(&o), mk_o(&o2)];
        Acceptors { rustls, openssl }
    }

    pub fn poll_ready(&self, kind: Kind, cx: &mut Context<'_>) -> Poll<bool> {
        self.poll_ready_i(kind, 0, cx)
    }

    pub fn poll_ready_i(&self, kind: Kind, inst: usize, cx: &mut Context<'_>) -> Poll<bool> {
        match kind {
            Kind::Rustls => Service::<End>::poll_ready(&self.rustls[inst], cx).map(|r| r.is_ok()),
            Kind::Openssl => Service::<End>::poll_ready(&self.openssl[inst], cx).map(|r| r.is_ok()),
        }
    }

    pub fn call(&self, kind: Kind, io: End) -> SrvFut {
        self.call_i(kind, 0, io)
    }

    pub fn call_i(&self, kind: Kind, inst: usize, io: End) -> SrvFut {
        match kind {
            Kind::Rustls => {
                let f = self.rustls[inst].call(io);
                Box::pin(async move {
                    match f.await {
                        Ok(s) => (Res::Ok, Some(Box::new(s) as Box<dyn Rw>)),
                        Err(TlsError::Timeout) => (Res::Timeout, None),
                        Err(TlsError::Tls(e)) => (Res::Tls(e.to_string()), None),
                        Err(TlsError::Service(e)) => match e {},
                    }
                })
            }
            Kind::Openssl => {
                let f = self.openssl[inst].call(io);
                Box::pin(async move {
                    match f.await {
                        Ok(s) => (Res::Ok, Some(Box::new(s) as Box<dyn Rw>)),
                        Err(TlsError::Timeout) => (Res::Timeout, None),
                        Err(TlsError::Tls(e)) => (Res::Tls(e.to_string()), None),
                        Err(TlsError::Service(e)) => match e {},
                    }
                })
            }
        }
    }
}

// ---------------------------------------------------------------------------------------
// (a) handshake schedules
// ---------------------------------------------------------------------------------------

#[derive(Clone, Copy, Debug, PartialEq, Eq)]
pub enum Dev {
    Stall,
    Split1,
    SplitHalf,
    Garbage,
    Disconnect,
    /// advance the clock to (timeout * a / 2 + b) ms after the call first; a in 1..=2, b in -1..=1
    AdvanceTo(u32, i32),
    /// advance the clock by 1 ms first
    Advance1ms,
}

const DEVS: [Dev; 10] = [Dev::Stall, Dev::Split1, Dev::SplitHalf, Dev::Garbage, Dev::Disconnect, Dev::AdvanceTo(1, 0), Dev::AdvanceTo(2, -1), Dev::AdvanceTo(2, 0), Dev::AdvanceTo(2, 1), Dev::Advance1ms];

#[derive(Clone, Debug)]
pub struct HsCase {
    kind: Kind,
    /// 0: service built from the configured acceptor, 1: from a clone of it
    inst: usize,
    timeout_ms: u64,
    /// (delivery index, deviation)
    devs: Vec<(usize, Dev)>,
}

fn hs_json(c: &HsCase) -> Value {
    json!({"part": "handshake", "kind": format!("{:?}", c.kind), "inst": c.inst, "timeout_ms": c.timeout_ms, "devs": c.devs.iter().map(|(i, d)| json!([i, format!("{:?}", d)])).collect::<Vec<_>>()})
}

fn dev_from(s: &str) -> Dev {
    match s {
        "Stall" => Dev::Stall,
        "Split1" => Dev::Split1,
        "SplitHalf" => Dev::SplitHalf,
        "Garbage" => Dev::Garbage,
        "Disconnect" => Dev::Disconnect,
        "Advance1ms" => Dev::Advance1ms,
        other => {
            let inner = other.trim_start_matches("AdvanceTo(").trim_end_matches(')');
            let (a, b) = inner.split_once(", ").unwrap();
            Dev::AdvanceTo(a.parse().unwrap(), b.parse().unwrap())
        }
    }
}

struct HsOut {
    res: Option<Res>,
    resolved_at_ms: Option<u64>,
    /// a pump ran at or after the deadline and left the future pending
    pending_after_deadline: bool,
    deliveries: usize,
    client_ok: bool,
    tampered: bool,
    /// the server's flight to the client was replaced / cut off: the client cannot finish
    client_disturbed: bool,
    all_client_bytes_delivered_before_deadline: bool,
    deadline_seen: bool,
    echo_error: Option<String>,
}

struct Pair {
    ctl: Control,
    server: Option<SrvFut>,
    sflag: Arc<Flag>,
    sres: Option<(Res, Option<Box<dyn Rw>>)>,
    client: Option<Pin<Box<dyn Future<Output = io::Result<Box<dyn Rw>>>>>>,
    cflag: Arc<Flag>,
    cres: Option<io::Result<Box<dyn Rw>>>,
}

impl Pair {
    fn new(acc: &Acceptors, kind: Kind, pki: &Pki, silent_client: bool) -> Pair {
        Pair::new_i(acc, kind, 0, pki, silent_client)
    }

    fn new_i(acc: &Acceptors, kind: Kind, inst: usize, pki: &Pki, silent_client: bool) -> Pair {
        let (client_end, server_end, ctl) = pipe(); // client writes dir 0, server writes dir 1
        let server = acc.call_i(kind, inst, server_end);
        let client: Option<Pin<Box<dyn Future<Output = io::Result<Box<dyn Rw>>>>>> = if silent_client {
            // keep the client end alive without ever writing
            let keep = client_end;
            Some(Box::pin(async move {
                let _keep = keep;
                std::future::pending::<io::Result<Box<dyn Rw>>>().await
            }))
        } else {
            let cfg = tlsutil::rustls_client_config(&pki.ca);
            let conn = tokio_rustls::TlsConnector::from(cfg);
            let fut = conn.connect(tlsutil::server_name("localhost"), client_end);
            Some(Box::pin(async move { fut.await.map(|s| Box::new(s) as Box<dyn Rw>) }))
        };
        Pair { ctl, server: Some(server), sflag: Flag::new(), sres: None, client, cflag: Flag::new(), cres: None }
    }

    /// Polls whichever side has been woken until neither is.
    fn pump(&mut self) {
        for _ in 0..200 {
            let mut progressed = false;
            if self.sres.is_none() && self.sflag.take() {
                progressed = true;
                let w = Waker::from(self.sflag.clone());
                let mut cx = Context::from_waker(&w);
                if let Some(f) = self.server.as_mut() {
                    if let Poll::Ready(r) = f.as_mut().poll(&mut cx) {
                        self.sres = Some(r);
                        self.server = None;
                    }
                }
            }
            if self.cres.is_none() && self.cflag.take() {
                progressed = true;
                let w = Waker::from(self.cflag.clone());
                let mut cx = Context::from_waker(&w);
                if let Some(f) = self.client.as_mut() {
                    if let Poll::Ready(r) = f.as_mut().poll(&mut cx) {
                        self.cres = Some(r);
                        self.client = None;
                    }
                }
            }
            if !progressed {
                return;
            }
        }
        panic!("pump does not quiesce");
    }
}

async fn advance(d: Duration) {
    tokio::time::advance(d).await;
}

fn run_handshake(rt: &tokio::runtime::Runtime, pki: &Pki, c: &HsCase) -> HsOut {
    let _g = rt.enter();
    let t = Duration::from_millis(c.timeout_ms);
    let acc = Acceptors::new(pki, t);
    let start = tokio::time::Instant::now();
    let mut pair = Pair::new_i(&acc, c.kind, c.inst, pki, false);
    let mut out = HsOut { res: None, resolved_at_ms: None, pending_after_deadline: false, deliveries: 0, client_ok: false, tampered: false, client_disturbed: false, all_client_bytes_delivered_before_deadline: true, deadline_seen: false, echo_error: None };
    let elapsed = |start: tokio::time::Instant| tokio::time::Instant::now().duration_since(start);
    let mut note = |pair: &Pair, out: &mut HsOut| {
        let now = elapsed(start);
        if let Some((r, _)) = &pair.sres {
            if out.res.is_none() {
                out.res = Some(r.clone());
                out.resolved_at_ms = Some(now.as_millis() as u64);
            }
        }
        if now >= t && !out.deadline_seen {
            // first observation at or after the deadline: was the whole handshake with the server
            // by then? (nothing in flight in either direction and the client has finished)
            out.deadline_seen = true;
            if pair.ctl.in_flight(0) > 0 || pair.ctl.in_flight(1) > 0 || pair.cres.is_none() {
                out.all_client_bytes_delivered_before_deadline = false;
            }
        }
        if pair.sres.is_some() {
        } else if now >= t + Duration::from_millis(2) {
            // Tokio timers have 1 ms granularity (deadlines are rounded up to the next tick), so a
            // poll counts as "after the timeout" from timeout + 2 ms on
            out.pending_after_deadline = true;
        }
    };
    pair.pump();
    note(&pair, &mut out);
    let mut k = 0usize;
    let mut stalled = false;
    'outer: for _ in 0..40 {
        // next delivery: client->server has priority (arbitrary but fixed)
        let d = if pair.ctl.in_flight(0) > 0 {
            0
        } else if pair.ctl.in_flight(1) > 0 {
            1
        } else {
            break;
        };
        let mut split: Option<usize> = None;
        for (idx, dev) in &c.devs {
            if *idx != k {
                continue;
            }
            match dev {
                Dev::Stall => {
                    stalled = true;
                    break 'outer;
                }
                Dev::Split1 => split = Some(1),
                Dev::SplitHalf => split = Some((pair.ctl.in_flight(d) / 2).max(1)),
                Dev::Garbage => {
                    if d == 0 && pair.sres.is_none() {
                        out.tampered = true;
                    }
                    if d == 1 && pair.sres.is_none() {
                        out.client_disturbed = true;
                    }
                    pair.ctl.discard_in_flight(d);
                    pair.ctl.inject(d, &[0x17, 0x03, 0x03, 0x00, 0x05, 1, 2, 3, 4, 5, 0xff, 0xfe, 0xfd, 0x00, 0x00, 0x00]);
                }
                Dev::Disconnect => {
                    if d == 0 && pair.sres.is_none() {
                        out.tampered = true;
                    }
                    if d == 1 && pair.sres.is_none() {
                        out.client_disturbed = true;
                    }
                    pair.ctl.close(d);
                }
                Dev::AdvanceTo(a, b) => {
                    let target = Duration::from_millis((c.timeout_ms * *a as u64 / 2).saturating_add_signed(*b as i64));
                    let now = elapsed(start);
                    if target > now {
                        rt.block_on(advance(target - now));
                    }
                    pair.pump();
                    note(&pair, &mut out);
                }
                Dev::Advance1ms => {
                    rt.block_on(advance(Duration::from_millis(1)));
                    pair.pump();
                    note(&pair, &mut out);
                }
            }
        }
        if d == 0 && elapsed(start) >= t && pair.ctl.in_flight(0) > 0 {
            out.all_client_bytes_delivered_before_deadline = false;
        }
        if let Some(n) = split {
            pair.ctl.deliver(d, n);
            pair.pump();
            note(&pair, &mut out);
        }
        pair.ctl.deliver_all(d);
        out.deliveries += 1;
        k += 1;
        pair.pump();
        note(&pair, &mut out);
        if pair.sres.is_some() && pair.cres.is_some() {
            // both sides are done; post-handshake tickets may still be in flight
            if pair.ctl.in_flight(0) == 0 && pair.ctl.in_flight(1) == 0 {
                break;
            }
        }
    }
    if stalled || pair.sres.is_none() {
        out.all_client_bytes_delivered_before_deadline = out.all_client_bytes_delivered_before_deadline && !stalled && pair.ctl.in_flight(0) == 0;
    }
    // final phase: let the clock run past the deadline
    for target_ms in [c.timeout_ms - 1, c.timeout_ms, c.timeout_ms + 1, c.timeout_ms + 2, c.timeout_ms * 3 / 2] {
        if pair.sres.is_some() {
            break;
        }
        let target = Duration::from_millis(target_ms);
        let now = elapsed(start);
        if target > now {
            rt.block_on(advance(target - now));
        }
        pair.pump();
        note(&pair, &mut out);
    }
    out.client_ok = matches!(pair.cres, Some(Ok(_)));
    // echo through an accepted stream
    let corrupted = c.devs.iter().any(|(_, d)| matches!(d, Dev::Garbage | Dev::Disconnect));
    if corrupted {
        // the "network" replaced or cut bytes somewhere: nothing can be said about later payloads
    } else if let (Some((Res::Ok, Some(_))), Some(Ok(_))) = (&pair.sres, &pair.cres) {
        let (_, srv) = pair.sres.take().unwrap();
        let cli = pair.cres.take().unwrap().unwrap();
        out.echo_error = echo(&pair.ctl, srv.unwrap(), cli, 300, usize::MAX).err();
    }
    out
}

pub fn echo_pub(ctl: &Control, srv: Box<dyn Rw>, cli: Box<dyn Rw>, size: usize, chunk: usize) -> Result<(), String> {
    echo(ctl, srv, cli, size, chunk)
}

/// Writes `size` bytes from each side and reads them on the other, delivering `chunk` bytes at a time.
fn echo(ctl: &Control, srv: Box<dyn Rw>, cli: Box<dyn Rw>, size: usize, chunk: usize) -> Result<(), String> {
    echo_v(ctl, srv, cli, size, chunk, 0)
}

/// `slice`: 0 = `write_all`; otherwise the payload is written with `write_vectored`, as slices of
/// that many bytes, resubmitting the unwritten rest after every partial write.
fn echo_v(ctl: &Control, mut srv: Box<dyn Rw>, mut cli: Box<dyn Rw>, size: usize, chunk: usize, slice: usize) -> Result<(), String> {
    for dir in 0..2 {
        let payload: Vec<u8> = (0..size).map(|i| (i as u32).wrapping_mul(2654435761).to_le_bytes()[1] ^ dir as u8).collect();
        let (w, r): (&mut Box<dyn Rw>, &mut Box<dyn Rw>) = if dir == 0 { (&mut cli, &mut srv) } else { (&mut srv, &mut cli) };
        let mut got = vec![0u8; size];
        let p2 = payload.clone();
        let mut wfut = Box::pin(async move {
            if slice == 0 {
                w.write_all(&p2).await?;
            } else {
                let mut off = 0usize;
                while off < p2.len() {
                    let mut ios: Vec<std::io::IoSlice<'_>> = vec![];
                    let mut skip = off;
                    for ch in p2.chunks(slice) {
                        if skip >= ch.len() {
                            skip -= ch.len();
                            continue;
                        }
                        ios.push(std::io::IoSlice::new(&ch[skip..]));
                        skip = 0;
                    }
                    let n = w.write_vectored(&ios).await?;
                    if n == 0 {
                        return Err(io::Error::new(io::ErrorKind::WriteZero, "write_vectored wrote nothing"));
                    }
                    off += n;
                }
            }
            w.flush().await
        });
        let mut rfut = Box::pin(async { if size == 0 { Ok(0) } else { r.read_exact(&mut got).await } });
        let (wf, rf) = (Flag::new(), Flag::new());
        let (mut wdone, mut rdone) = (false, false);
        let cap = ctl.0.borrow().dir[dir].capacity;
        let per_round = chunk.min(if cap == 0 { usize::MAX } else { cap }).max(1);
        for _ in 0..(size * 2 / per_round + 200) * 4 {
            if !wdone && wf.take() {
                let wk = Waker::from(wf.clone());
                if let Poll::Ready(r) = wfut.as_mut().poll(&mut Context::from_waker(&wk)) {
                    r.map_err(|e| format!("write failed: {e}"))?;
                    wdone = true;
                }
            }
            if !rdone && rf.take() {
                let wk = Waker::from(rf.clone());
                if let Poll::Ready(r) = rfut.as_mut().poll(&mut Context::from_waker(&wk)) {
                    r.map_err(|e| format!("read failed: {e}"))?;
                    rdone = true;
                }
            }
            if wdone && rdone {
                break;
            }
            // network: move some bytes in both directions (TLS may need the reverse direction too)
            let moved = ctl.deliver(dir, chunk) + ctl.deliver(1 - dir, chunk);
            if moved == 0 && !wf.0.load(Ordering::SeqCst) && !rf.0.load(Ordering::SeqCst) {
                break;
            }
        }
        drop(rfut);
        drop(wfut);
        if !(wdone && rdone) {
            return Err(format!("{} bytes {}: transfer did not complete", size, if dir == 0 { "client->server" } else { "server->client" }));
        }
        if got != payload {
            return Err(format!("{} bytes {}: payload arrived changed", size, if dir == 0 { "client->server" } else { "server->client" }));
        }
    }
    Ok(())
}

fn check_handshake(c: &HsCase, o: &HsOut) -> Option<(String, String)> {
    let t = c.timeout_ms;
    let k = format!("{:?}{}", c.kind, if c.inst == 1 { ":service-from-a-cloned-acceptor" } else { "" }).to_lowercase();
    let bad = |sig: &str, msg: String| Some((format!("C18:{sig}:{k}"), msg));
    match (&o.res, o.resolved_at_ms) {
        (None, _) => return bad("never-resolved", format!("the accept future was still pending at 1.5 x the handshake timeout ({t} ms)")),
        (Some(_), Some(at)) => {
            if o.pending_after_deadline {
                return bad("resolved-after-the-timeout", format!("the accept future was still pending after being polled at or after the handshake timeout ({t} ms); it resolved at {at} ms with {:?}", o.res));
            }
        }
        _ => {}
    }
    let res = o.res.as_ref().unwrap();
    let at = o.resolved_at_ms.unwrap();
    match res {
        Res::Ok => {
            if o.tampered {
                return bad("ok-after-tampering", "the acceptor produced a stream although the client's handshake was replaced by garbage / cut off".into());
            }
            if at >= t + 2 {
                return bad("ok-after-the-timeout", format!("handshake accepted at {at} ms, after the {t} ms timeout had been reached and polled"));
            }
            if !o.client_ok {
                return bad("ok-but-client-failed", "server side accepted but the client's handshake did not complete".into());
            }
            if let Some(e) = &o.echo_error {
                return bad("data-not-intact", e.clone());
            }
        }
        Res::Timeout => {
            if at < t {
                return bad("timeout-too-early", format!("Timeout reported at {at} ms, before the configured {t} ms"));
            }
            if !o.tampered && !o.client_disturbed && o.all_client_bytes_delivered_before_deadline && c.devs.iter().all(|(_, d)| !matches!(d, Dev::Stall)) {
                // the whole handshake reached the server before the deadline
                let reached_deadline_early = c.devs.iter().any(|(_, d)| matches!(d, Dev::AdvanceTo(2, b) if *b >= 0));
                if !reached_deadline_early {
                    return bad("timeout-although-handshake-complete", "every handshake flight was delivered before the deadline, yet the call ended in Timeout".into());
                }
            }
        }
        Res::Tls(e) => {
            if !o.tampered && !o.client_disturbed && !c.devs.iter().any(|(_, d)| matches!(d, Dev::Stall)) {
                return bad("tls-error-on-intact-handshake", format!("TLS error {e} although the client's handshake was delivered intact"));
            }
        }
    }
    None
}

// ---------------------------------------------------------------------------------------
// (b) concurrency limit
// ---------------------------------------------------------------------------------------

#[derive(Clone, Copy, Debug, PartialEq, Eq)]
pub enum COp {
    /// `poll_ready` / `call` of service slot s of the configuration
    Ready(usize),
    Call(usize),
    PollFut(usize),
    EndTimeout,
    EndGarbage(usize),
    DropFut(usize),
}

fn conc_ops_json(ops: &[COp]) -> Value {
    Value::Array(ops.iter().map(|o| json!(format!("{:?}", o))).collect())
}

fn cop_from(s: &str) -> COp {
    let num = |s: &str| -> usize { s.chars().filter(|c| c.is_ascii_digit()).collect::<String>().parse().unwrap_or(0) };
    if s.starts_with("Ready") {
        COp::Ready(num(s))
    } else if s.starts_with("Call") {
        COp::Call(num(s))
    } else if s == "EndTimeout" {
        COp::EndTimeout
    } else if s.starts_with("PollFut") {
        COp::PollFut(num(s))
    } else if s.starts_with("EndGarbage") {
        COp::EndGarbage(num(s))
    } else {
        COp::DropFut(num(s))
    }
}

struct Conc<'a> {
    rt: &'a tokio::runtime::Runtime,
    acc: Acceptors,
    /// the services of this configuration, all on this thread: (back-end, instance)
    svcs: Vec<(Kind, usize)>,
    limit: usize,
    pki: &'a Pki,
    live: Vec<Option<Pair>>,
    may_call: Vec<bool>,
    /// waker of the last poll_ready that answered Pending
    parked: Option<Arc<Flag>>,
}

impl<'a> Conc<'a> {
    fn in_flight(&self) -> usize {
        self.live.iter().filter(|p| p.as_ref().map_or(false, |p| p.sres.is_none())).count()
    }

    fn step(&mut self, op: COp) -> Option<(String, String)> {
        let slot = match op {
            COp::Ready(s) | COp::Call(s) => s,
            _ => 0,
        };
        let mut k = format!("{:?}", self.svcs[slot].0).to_lowercase();
        if self.svcs.len() > 1 {
            k = format!("{k}:two-services-on-one-thread");
        }
        let before = self.in_flight();
        let mut expect_wake = false;
        match op {
            COp::Ready(s) => {
                // a fresh waker for every poll: whichever waker was handed over last is the one
                // that must be woken (one task polling all services of the thread, its waker
                // changing between polls)
                let f = Flag::new();
                f.take();
                let w = Waker::from(f.clone());
                let (kind, inst) = self.svcs[s];
                let r = self.acc.poll_ready_i(kind, inst, &mut Context::from_waker(&w));
                let want_ready = before < self.limit;
                match r {
                    Poll::Ready(ok) => {
                        if !want_ready {
                            return Some((format!("C18:ready-at-the-limit:{k}"), format!("poll_ready of service {s} ({:?}) reported ready with {before} handshakes in progress on its thread, limit {}", self.svcs[s], self.limit)));
                        }
                        if !ok {
                            return Some((format!("C18:ready-error:{k}"), "poll_ready returned an error".into()));
                        }
                        self.may_call[s] = true;
                        // the task has been told to go ahead: it is not waiting any more
                        self.parked = None;
                    }
                    Poll::Pending => {
                        if want_ready {
                            return Some((format!("C18:not-ready-below-the-limit:{k}"), format!("poll_ready is pending with only {before} handshakes in progress, limit {}", self.limit)));
                        }
                        self.parked = Some(f);
                        self.may_call[s] = false;
                    }
                }
            }
            COp::Call(s) => {
                // a call consumes the readiness answer of that service only: another service of the
                // thread that was told Ready earlier may still be called (the Service contract
                // allows it), which is how a freed slot can be retaken without a readiness check
                self.may_call[s] = false;
                let _g = self.rt.enter();
                let (kind, inst) = self.svcs[s];
                let p = Pair::new_i(&self.acc, kind, inst, self.pki, true);
                self.live.push(Some(p));
            }
            COp::PollFut(i) => {
                if let Some(p) = self.live[i].as_mut() {
                    p.sflag.0.store(true, Ordering::SeqCst);
                    p.pump();
                }
            }
            COp::EndTimeout => {
                // the clock passes every pending handshake's deadline
                self.rt.block_on(advance(Duration::from_millis(1001)));
                for p in self.live.iter_mut().flatten() {
                    p.pump();
                }
                let after = self.in_flight();
                if after != 0 {
                    return Some((format!("C18:pending-after-timeout:{k}"), format!("{after} handshakes still pending after the timeout passed and they were polled")));
                }
                expect_wake = before >= self.limit && after < self.limit;
            }
            COp::EndGarbage(i) => {
                if let Some(p) = self.live[i].as_mut() {
                    p.ctl.inject(0, &[0x17, 0x03, 0x03, 0x00, 0x02, 1, 2, 0xff, 0xff, 0xff, 0xff]);
                    p.pump();
                    let after = self.in_flight();
                    expect_wake = before >= self.limit && after < self.limit;
                }
            }
            COp::DropFut(i) => {
                let was_pending = self.live[i].as_ref().map_or(false, |p| p.sres.is_none());
                self.live[i] = None;
                expect_wake = was_pending && before >= self.limit && self.in_flight() < self.limit;
            }
        }
        if expect_wake {
            if let Some(f) = self.parked.take() {
                if f.wakes() == 0 {
                    return Some((format!("C18:no-wake-when-a-slot-frees:{k}"), format!("poll_ready had answered Pending; a handshake ended ({:?}) and the waiting task was not woken", op)));
                }
            }
        }
        None
    }

    fn enabled(&self) -> Vec<COp> {
        let mut v = vec![];
        for s in 0..self.svcs.len() {
            v.push(COp::Ready(s));
            if self.may_call[s] && self.live.len() < 5 {
                v.push(COp::Call(s));
            }
        }
        let pending: Vec<usize> = self.live.iter().enumerate().filter(|(_, p)| p.as_ref().map_or(false, |p| p.sres.is_none())).map(|(i, _)| i).collect();
        for i in &pending {
            v.push(COp::PollFut(*i));
            v.push(COp::EndGarbage(*i));
            v.push(COp::DropFut(*i));
        }
        if !pending.is_empty() {
            v.push(COp::EndTimeout);
        }
        v
    }
}

fn run_conc_seq(pki: &Pki, svcs: &[(Kind, usize)], limit: usize, ops: &[COp]) -> (Option<(String, String)>, Vec<COp>) {
    let rt = tokio::runtime::Builder::new_current_thread().enable_all().start_paused(true).build().unwrap();
    let acc = {
        let _g = rt.enter();
        Acceptors::new(pki, Duration::from_millis(1000))
    };
    let mut c = Conc { rt: &rt, acc, svcs: svcs.to_vec(), limit, pki, live: vec![], may_call: vec![false; svcs.len()], parked: None };
    for op in ops {
        let _g = rt.enter();
        if let Some(b) = c.step(*op) {
            drop(_g);
            let _g2 = rt.enter();
            c.live.clear();
            return (Some(b), vec![]);
        }
    }
    let en = c.enabled();
    let _g = rt.enter();
    c.live.clear();
    (None, en)
}

fn svcs_json(svcs: &[(Kind, usize)]) -> Value {
    Value::Array(svcs.iter().map(|(k, i)| json!([format!("{:?}", k), i])).collect())
}

fn conc_dfs(pki: &Pki, svcs: &[(Kind, usize)], limit: usize, seq: &mut Vec<COp>, depth: usize, bag: &mut VioBag, count: &mut u64, armed: &mut u64) {
    let (bad, enabled) = run_conc_seq(pki, svcs, limit, seq);
    *count += 1;
    if let Some((sig, msg)) = bad {
        bag.add(&sig.clone(), || Violation { signature: sig.clone(), summary: format!("limit {limit}: {msg}"), replay: json!({"part": "concurrency", "services": svcs_json(svcs), "limit": limit, "ops": conc_ops_json(seq)}) });
        return;
    }
    if seq.iter().filter(|o| matches!(o, COp::Call(_))).count() >= limit {
        *armed += 1;
    }
    if seq.len() == depth {
        return;
    }
    for op in enabled {
        // poll_ready twice in a row adds nothing
        // the same poll_ready three times in a row adds nothing (twice does: the waker changes)
        if matches!(op, COp::Ready(_)) && seq.len() >= 2 && seq[seq.len() - 1] == op && seq[seq.len() - 2] == op {
            continue;
        }
        seq.push(op);
        conc_dfs(pki, svcs, limit, seq, depth, bag, count, armed);
        seq.pop();
    }
}

// ---------------------------------------------------------------------------------------

pub fn run(args: &Args) -> i32 {
    let mut rep = Report::new(args, "model_checking");
    let pki = Pki::new();
    if let Some(p) = &args.replay {
        let r = mcutil::load_replay(p);
        if r["part"] == "handshake" {
            let c = HsCase {
                kind: if r["kind"] == "Openssl" { Kind::Openssl } else { Kind::Rustls },
                inst: r["inst"].as_u64().unwrap_or(0) as usize,
                timeout_ms: r["timeout_ms"].as_u64().unwrap(),
                devs: r["devs"].as_array().unwrap().iter().map(|d| (d[0].as_u64().unwrap() as usize, dev_from(d[1].as_str().unwrap()))).collect(),
            };
            let rt = tokio::runtime::Builder::new_current_thread().enable_all().start_paused(true).build().unwrap();
            let o = run_handshake(&rt, &pki, &c);
            println!("{:?}: resolved {:?} at {:?} ms, deliveries {}, client ok {}, echo {:?}", c, o.res, o.resolved_at_ms, o.deliveries, o.client_ok, o.echo_error);
            let v = check_handshake(&c, &o);
            println!("replay verdict: {}", match &v { Some((s, m)) => format!("violates ({s}: {m})"), None => "holds".into() });
            if let Some((s, m)) = v {
                rep.violation(Violation { signature: s, summary: m, replay: r.clone() });
            }
        } else if r["part"] == "concurrency" {
            let kind_of = |v: &Value| if v == "Openssl" { Kind::Openssl } else { Kind::Rustls };
            let svcs: Vec<(Kind, usize)> = match r["services"].as_array() {
                Some(a) => a.iter().map(|s| (kind_of(&s[0]), s[1].as_u64().unwrap() as usize)).collect(),
                None => vec![(kind_of(&r["kind"]), 0)],
            };
            let limit = r["limit"].as_u64().unwrap() as usize;
            let ops: Vec<COp> = r["ops"].as_array().unwrap().iter().map(|o| cop_from(o.as_str().unwrap())).collect();
            let r2 = r.clone();
            let v = std::thread::spawn(move || {
                actix_tls::accept::max_concurrent_tls_connect(limit);
                let pki = Pki::new();
                run_conc_seq(&pki, &svcs, limit, &ops).0
            })
            .join()
            .unwrap();
            println!("replay verdict: {}", match &v { Some((s, m)) => format!("violates ({s}: {m})"), None => "holds".into() });
            if let Some((s, m)) = v {
                rep.violation(Violation { signature: s, summary: m, replay: r2 });
            }
        } else {
            println!("payload cases are re-run by the normal check (deterministic)");
        }
        return rep.finish();
    }

    let mut bag = VioBag::default();
    // ---- (a) handshake schedules
    let max_dev = args.opt_usize("dev", args.tier.pick(2, 3));
    let timeouts: Vec<u64> = args.tier.pick(vec![100, 1000], vec![100, 1000, 5000]);
    let positions = 5usize; // deliveries 0..4 (TLS 1.3: hello, server flight, finished, tickets ...)
    let mut singles: Vec<(usize, Dev)> = vec![];
    for k in 0..positions {
        for d in DEVS {
            singles.push((k, d));
        }
    }
    let mut dev_sets: Vec<Vec<(usize, Dev)>> = vec![vec![]];
    for a in &singles {
        dev_sets.push(vec![*a]);
    }
    if max_dev >= 2 {
        for i in 0..singles.len() {
            for j in i + 1..singles.len() {
                dev_sets.push(vec![singles[i], singles[j]]);
            }
        }
    }
    if max_dev >= 3 {
        // triples restricted to the first three deliveries
        let s3: Vec<(usize, Dev)> = singles.iter().copied().filter(|(k, _)| *k < 3).collect();
        for i in 0..s3.len() {
            for j in i + 1..s3.len() {
                for l in j + 1..s3.len() {
                    dev_sets.push(vec![s3[i], s3[j], s3[l]]);
                }
            }
        }
    }
    let mut cases: Vec<HsCase> = vec![];
    for kind in [Kind::Rustls, Kind::Openssl] {
        for t in &timeouts {
            for d in &dev_sets {
                cases.push(HsCase { kind, inst: 0, timeout_ms: *t, devs: d.clone() });
                if d.len() <= 1 {
                    // the service built from a *clone* of the configured acceptor
                    cases.push(HsCase { kind, inst: 1, timeout_ms: *t, devs: d.clone() });
                }
            }
        }
    }
    let chunks: Vec<&[HsCase]> = cases.chunks((cases.len() / (args.threads * 4)).max(1)).collect();
    let parts = mcutil::par_map(args.threads, &chunks, |_, chunk| {
        let pki = Pki::new();
        let rt = tokio::runtime::Builder::new_current_thread().enable_all().start_paused(true).build().unwrap();
        let mut bag = VioBag::default();
        let (mut ok, mut timeout, mut tls, mut steps) = (0u64, 0u64, 0u64, 0u64);
        for c in chunk.iter() {
            let r = mcutil::quiet_catch(|| run_handshake(&rt, &pki, c));
            match r {
                Ok(o) => {
                    steps += o.deliveries as u64 + c.devs.len() as u64 + 2;
                    match &o.res {
                        Some(Res::Ok) => ok += 1,
                        Some(Res::Timeout) => timeout += 1,
                        Some(Res::Tls(_)) => tls += 1,
                        None => {}
                    }
                    if let Some((sig, msg)) = check_handshake(c, &o) {
                        bag.add(&sig.clone(), || Violation { signature: sig.clone(), summary: format!("{msg} [{:?}]", c), replay: hs_json(c) });
                    }
                }
                Err(p) => {
                    let m = mcutil::panic_message(&*p);
                    bag.add("C18:panic", || Violation { signature: "C18:panic".into(), summary: format!("{m} [{:?}]", c), replay: hs_json(c) });
                }
            }
        }
        (bag, ok, timeout, tls, steps)
    });
    let (mut ok, mut timeout, mut tls, mut steps) = (0u64, 0u64, 0u64, 0u64);
    for (b, o, t, l, s) in parts {
        for (_, (v, n)) in b.map {
            for _ in 0..1 {
                bag.add(&v.signature.clone(), || v.clone());
            }
            let _ = n;
        }
        ok += o;
        timeout += t;
        tls += l;
        steps += s;
    }
    rep.set("handshake_schedules", cases.len());
    rep.set("handshakes_accepted", ok);
    rep.set("handshakes_timed_out", timeout);
    rep.set("handshakes_failed_with_tls_error", tls);

    // ---- (b) concurrency limit: each limit in fresh threads
    let depth = args.opt_usize("depth", args.tier.pick(6, 8));
    let depth2 = args.opt_usize("depth2", args.tier.pick(5, 7));
    let mut conc_seqs = 0u64;
    let mut conc_armed = 0u64;
    let mut two_service_seqs = 0u64;
    for limit in 1..=3usize {
        actix_tls::accept::max_concurrent_tls_connect(limit);
        // one service, and every pair of services that can share a worker thread
        let mut configs: Vec<(Vec<(Kind, usize)>, usize)> = vec![(vec![(Kind::Rustls, 0)], depth), (vec![(Kind::Openssl, 0)], depth)];
        if limit <= 2 {
            configs.push((vec![(Kind::Rustls, 0), (Kind::Openssl, 0)], depth2));
            configs.push((vec![(Kind::Openssl, 0), (Kind::Openssl, 1)], depth2));
            configs.push((vec![(Kind::Rustls, 0), (Kind::Rustls, 1)], depth2));
        }
        let handles: Vec<_> = configs
            .into_iter()
            .map(|(svcs, depth)| {
                std::thread::spawn(move || {
                    let pki = Pki::new();
                    let mut bag = VioBag::default();
                    let (mut n, mut armed) = (0u64, 0u64);
                    conc_dfs(&pki, &svcs, limit, &mut vec![], depth, &mut bag, &mut n, &mut armed);
                    (bag, n, armed, svcs.len())
                })
            })
            .collect();
        for h in handles {
            let (b, n, a, nsvc) = h.join().unwrap();
            if nsvc > 1 {
                two_service_seqs += n;
            }
            conc_seqs += n;
            conc_armed += a;
            for (_, (v, _)) in b.map {
                bag.add(&v.signature.clone(), || v.clone());
            }
        }
    }
    rep.set("concurrency_sequences", conc_seqs);
    rep.set("concurrency_sequences_reaching_the_limit", conc_armed);
    rep.set("concurrency_depth", depth);
    rep.set("concurrency_sequences_with_two_services_on_one_thread", two_service_seqs);
    rep.set("concurrency_depth_two_services", depth2);

    // ---- (c) payloads
    let mut payload_runs = 0u64;
    {
        let rt = tokio::runtime::Builder::new_current_thread().enable_all().start_paused(true).build().unwrap();
        for kind in [Kind::Rustls, Kind::Openssl] {
            for size in [0usize, 1, 16383, 16384, 16385, 65536] {
                for (chunk, capacity, vectored) in [(usize::MAX, 0usize, 0usize), (4096, 0, 0), (1, 0, 0), (usize::MAX, 4096, 0), (usize::MAX, 1000, 0), (333, 1000, 0), (usize::MAX, 1, 0), (usize::MAX, 0, 4096), (usize::MAX, 4096, 4096), (usize::MAX, 1000, 4096), (333, 1000, 1000), (usize::MAX, 4096, 1)] {
                    if (chunk == 1 || capacity == 1) && size > 16385 && args.tier == mcutil::Tier::Quick {
                        continue;
                    }
                    if vectored == 1 && size > 16385 {
                        continue;
                    }
                    payload_runs += 1;
                    let _g = rt.enter();
                    let acc = Acceptors::new(&pki, Duration::from_secs(5));
                    let mut pair = Pair::new(&acc, kind, &pki, false);
                    for _ in 0..50 {
                        pair.pump();
                        if pair.sres.is_some() && pair.cres.is_some() {
                            break;
                        }
                        pair.ctl.deliver_all(0);
                        pair.ctl.deliver_all(1);
                    }
                    let k = format!("{:?}", kind).to_lowercase();
                    match (pair.sres.take(), pair.cres.take()) {
                        (Some((Res::Ok, Some(s))), Some(Ok(c))) => {
                            // back-pressure: the transport takes at most `capacity` unread bytes
                            pair.ctl.set_capacity(0, capacity);
                            pair.ctl.set_capacity(1, capacity);
                            let r = if vectored == 0 { echo(&pair.ctl, s, c, size, chunk) } else { echo_v(&pair.ctl, s, c, size, chunk, vectored) };
                            if let Err(e) = r {
                                let e = if vectored == 0 { e } else { format!("{e} (written with write_vectored, slices of {vectored} bytes)") };
                                let sig = if capacity == 0 { format!("C18:data-not-intact:{k}") } else { format!("C18:data-not-intact:{k}:transport-with-back-pressure") };
                                bag.add(&sig.clone(), || Violation { signature: sig.clone(), summary: format!("{e} (delivered in pieces of {chunk}, transport capacity {capacity} (0 = unbounded); the connection stays open after write_all + flush)"), replay: json!({"part": "payload", "kind": k, "size": size, "chunk": chunk, "capacity": capacity, "vectored": vectored}) });
                            }
                        }
                        other => {
                            let sig = format!("C18:plain-handshake-failed:{k}");
                            bag.add(&sig.clone(), || Violation { signature: sig.clone(), summary: format!("handshake with prompt delivery did not succeed: server {:?}", other.0.map(|r| r.0)), replay: json!({"part": "payload", "kind": k, "size": size, "chunk": chunk}) });
                        }
                    }
                }
            }
        }
    }
    // ---- (d) handshakes over a transport with back-pressure; data followed by an abrupt end
    {
        let rt = tokio::runtime::Builder::new_current_thread().enable_all().start_paused(true).build().unwrap();
        for kind in [Kind::Rustls, Kind::Openssl] {
            let k = format!("{:?}", kind).to_lowercase();
            // the server's flight does not fit into the transport at once
            for hcap in [4096usize, 700, 256, 64] {
                payload_runs += 1;
                let _g = rt.enter();
                let acc = Acceptors::new(&pki, Duration::from_secs(5));
                let mut pair = Pair::new(&acc, kind, &pki, false);
                pair.ctl.set_capacity(0, hcap);
                pair.ctl.set_capacity(1, hcap);
                let mut client_done = false;
                for _ in 0..2000 {
                    pair.pump();
                    if pair.sres.is_some() {
                        break;
                    }
                    if let Some(Ok(_)) = &pair.cres {
                        // the client has finished its handshake and goes on reading (a client that
                        // stopped reading would block the server's session tickets in so small a
                        // transport, which is its own fault, not the acceptor's)
                        client_done = true;
                        let mut c = pair.cres.take().unwrap().unwrap();
                        pair.client = Some(Box::pin(async move {
                            let mut b = [0u8; 16];
                            let _ = c.read(&mut b).await;
                            Ok(c)
                        }));
                        pair.cflag.0.store(true, Ordering::SeqCst);
                        continue;
                    }
                    if pair.ctl.deliver_all(0) + pair.ctl.deliver_all(1) == 0 && !pair.sflag.0.load(Ordering::SeqCst) && !pair.cflag.0.load(Ordering::SeqCst) {
                        break;
                    }
                }
                let ok = client_done && matches!(&pair.sres, Some((Res::Ok, Some(_))));
                if !ok {
                    let sig = format!("C18:handshake-fails-over-a-transport-with-back-pressure:{k}");
                    bag.add(&sig.clone(), || Violation { signature: sig.clone(), summary: format!("a well-behaved client over a transport that takes at most {hcap} unread bytes per direction (every byte is delivered promptly, no time passes): server side {:?}, client finished its handshake: {client_done}", pair.sres.as_ref().map(|r| r.0.clone())), replay: json!({"part": "payload", "kind": k, "handshake_capacity": hcap}) });
                }
            }
            // the client writes, its bytes arrive, then the transport ends without a TLS close:
            // what arrived is read before the end / error is reported
            for size in [1usize, 100, 16384, 40000] {
                payload_runs += 1;
                let _g = rt.enter();
                let acc = Acceptors::new(&pki, Duration::from_secs(5));
                let mut pair = Pair::new(&acc, kind, &pki, false);
                for _ in 0..50 {
                    pair.pump();
                    if pair.sres.is_some() && pair.cres.is_some() {
                        break;
                    }
                    pair.ctl.deliver_all(0);
                    pair.ctl.deliver_all(1);
                }
                if let (Some((Res::Ok, Some(mut srv))), Some(Ok(mut cli))) = (pair.sres.take(), pair.cres.take()) {
                    let payload: Vec<u8> = (0..size).map(|i| (i as u32).wrapping_mul(2654435761).to_le_bytes()[2]).collect();
                    let p2 = payload.clone();
                    let wrote = now_or_panic(async {
                        cli.write_all(&p2).await?;
                        cli.flush().await
                    });
                    pair.ctl.deliver_all(0);
                    pair.ctl.close(0);
                    let mut got = vec![];
                    let end = now_or_panic(async {
                        let mut buf = vec![0u8; 65536];
                        loop {
                            match srv.read(&mut buf).await {
                                Ok(0) => break "eof".to_string(),
                                Ok(n) => got.extend_from_slice(&buf[..n]),
                                Err(e) => break format!("{:?}", e.kind()),
                            }
                        }
                    });
                    if wrote.is_err() || got != payload {
                        let sig = format!("C18:data-not-intact:{k}:bytes-followed-by-an-abrupt-end");
                        bag.add(&sig.clone(), || Violation { signature: sig.clone(), summary: format!("the client wrote {size} bytes (write result {:?}), all of them were delivered, then the transport ended without a TLS close; the server read {} of them before it saw {end}", wrote.as_ref().map_err(|e| e.kind()), got.len()), replay: json!({"part": "payload", "kind": k, "abrupt_end_after": size}) });
                    }
                }
            }
        }
    }
    rep.set("payload_runs", payload_runs);
    bag.drain_into(&mut rep);
    let total = cases.len() as u64 + conc_seqs + payload_runs;
    rep.set("states", steps + conc_seqs + payload_runs + total);
    rep.set("transitions", steps + conc_seqs + payload_runs);
    rep.set("traces_validated_against_impl", total);
    rep.set("max_deviations", max_dev);
    rep.set("exhaustive", true);
    rep.sample(json!({"part": "handshake", "kind": "Rustls", "timeout_ms": 1000, "devs": [[0, "AdvanceTo(1, 0)"], [2, "Stall"]], "expect": "client hello arrives at 500 ms, client's Finished never arrives: Timeout exactly when the clock reaches 1000 ms"}));
    rep.sample(json!({"part": "concurrency", "limit": 1, "services": [["Rustls", 0]], "ops": ["Ready(0)", "Call(0)", "Ready(0)", "DropFut(0)", "Ready(0)"], "expect": "second poll_ready is Pending (even before the future was polled), dropping the future wakes the waiter, third poll_ready is Ready"}));
    rep.assume("rustls 0.23 and OpenSSL acceptors only; client is tokio-rustls; the pipe delivers bytes only when the explorer says so; timer wake-ups are observed through flag wakers (a future is only polled after it was woken)");
    rep.assume("'random payloads up to 64 KiB' of the quantifier are replaced by deterministic payloads of sizes around the 16 KiB TLS record limit");
    rep.finish()
}
