//! C19 Connector: resolution precedence, ordered fallback, hostname-verified TLS.
//!
//! (a) Every address list of length 0..=4 whose entries are a live loopback listener or a closed
//!     port x how the addresses are supplied (pre-set on the request, custom resolver, IP-literal
//!     host, nothing) x host string forms x decoy targets (a *different* live listener reachable
//!     through the host string / resolver, which must not be used when addresses are pre-set) x
//!     optional local bind, through the real `Connector`, `Resolver` and `TcpConnector` services.
//! (b) rustls 0.23 and OpenSSL TLS connector services over the in-memory pipe against a real TLS
//!     server: certificate covers the name / another name / untrusted issuer x requested name
//!     matching / not matching / with port / syntactically invalid; then payload echo.

use std::{
    cell::RefCell,
    future::Future,
    io,
    net::{IpAddr, Ipv4Addr, SocketAddr, TcpListener},
    pin::Pin,
    rc::Rc,
    sync::Arc,
    task::{Context, Poll, Waker},
    time::Duration,
};

use actix_service::Service;
use actix_tls::connect::{self, ConnectError, ConnectInfo, Connection, Connector, Resolve, Resolver, ResolverService};
use futures_core::future::LocalBoxFuture;
use mcutil::{json, Args, Report, Value, VioBag, Violation};

use crate::{
    c18::{Flag, Rw},
    pipe::{pipe, Control, End},
    tlsutil::{self, Ca, Leaf},
};

// ---------------------------------------------------------------------------------------
// (a) resolution precedence and ordered fallback
// ---------------------------------------------------------------------------------------

#[derive(Clone, Copy, Debug, PartialEq, Eq)]
enum Supply {
    /// addresses pre-set on the request with set_addrs
    Preset,
    /// custom resolver answers with the list
    ResolverOk,
    /// custom resolver fails
    ResolverErr,
    /// nothing pre-set, host is an IP literal (list is ignored; entry 0 decides live/closed)
    IpLiteral,
}

#[derive(Clone, Copy, Debug, PartialEq, Eq)]
enum HostForm {
    Name,
    NameWithPort,
    /// a name the operating system could resolve by itself ("localhost"); it is a name all the
    /// same and goes through the configured resolver
    OsKnownNameWithPort,
    Ip,
    IpWithPort,
}

#[derive(Clone, Debug)]
struct ACase {
    /// true = live listener, false = closed port
    list: Vec<bool>,
    supply: Supply,
    host: HostForm,
    local_bind: bool,
    /// use the bare TcpConnector (no resolver in front)
    bare_tcp: bool,
}

fn acase_json(c: &ACase) -> Value {
    json!({"part": "connect", "list": c.list, "supply": format!("{:?}", c.supply), "host": format!("{:?}", c.host), "local_bind": c.local_bind, "bare_tcp": c.bare_tcp})
}

fn acase_from(v: &Value) -> ACase {
    ACase {
        list: v["list"].as_array().unwrap().iter().map(|b| b.as_bool().unwrap()).collect(),
        supply: match v["supply"].as_str().unwrap() { "Preset" => Supply::Preset, "ResolverOk" => Supply::ResolverOk, "ResolverErr" => Supply::ResolverErr, _ => Supply::IpLiteral },
        host: match v["host"].as_str().unwrap() { "Name" => HostForm::Name, "NameWithPort" => HostForm::NameWithPort, "OsKnownNameWithPort" => HostForm::OsKnownNameWithPort, "Ip" => HostForm::Ip, _ => HostForm::IpWithPort },
        local_bind: v["local_bind"].as_bool().unwrap(),
        bare_tcp: v["bare_tcp"].as_bool().unwrap(),
    }
}

struct LogResolver {
    answer: Result<Vec<SocketAddr>, String>,
    calls: Rc<RefCell<Vec<(String, u16)>>>,
}

impl Resolve for LogResolver {
    fn lookup<'a>(&'a self, host: &'a str, port: u16) -> LocalBoxFuture<'a, Result<Vec<SocketAddr>, Box<dyn std::error::Error>>> {
        self.calls.borrow_mut().push((host.to_string(), port));
        let a = self.answer.clone();
        Box::pin(async move {
            tokio::task::yield_now().await;
            a.map_err(|e| Box::new(io::Error::new(io::ErrorKind::Other, e)) as Box<dyn std::error::Error>)
        })
    }
}

const HARNESS_IP: Ipv4Addr = Ipv4Addr::new(127, 89, 7, 1);
const BIND_IP: Ipv4Addr = Ipv4Addr::new(127, 89, 7, 2);

struct Target {
    addr: SocketAddr,
    listener: Option<TcpListener>,
    /// A closed target keeps its port: a socket that is bound but never listens. Connecting to it
    /// is refused like a connect to a free port, but no other listener of this process (the next
    /// target, a case running on another thread) can be given the same port in the meantime.
    _reserved: Option<tokio::net::TcpSocket>,
}

fn make_target(live: bool) -> Target {
    if live {
        let l = TcpListener::bind((HARNESS_IP, 0)).expect("bind");
        l.set_nonblocking(true).unwrap();
        let addr = l.local_addr().unwrap();
        Target { addr, listener: Some(l), _reserved: None }
    } else {
        let s = tokio::net::TcpSocket::new_v4().expect("socket");
        s.bind(SocketAddr::from((HARNESS_IP, 0))).expect("bind");
        let addr = s.local_addr().unwrap();
        Target { addr, listener: None, _reserved: Some(s) }
    }
}

/// Connections waiting on the target's listener; waits (up to 0.5 s) for the `want` expected ones:
/// a loopback connect normally completes in the kernel before connect() returns to the client,
/// but the listener's side may be processed a moment later on a busy machine.
fn accepts(t: &Target, want: usize) -> usize {
    let mut n = 0;
    if let Some(l) = &t.listener {
        let deadline = std::time::Instant::now() + Duration::from_millis(500);
        loop {
            match l.accept() {
                Ok(_) => n += 1,
                Err(_) => {
                    if n >= want && n > 0 {
                        break;
                    }
                    if n >= want {
                        // nothing expected: one short grace period for a stray attempt
                        std::thread::sleep(Duration::from_micros(200));
                        if let Ok(_) = l.accept() {
                            n += 1;
                        }
                        break;
                    }
                    if std::time::Instant::now() > deadline {
                        break;
                    }
                    std::thread::sleep(Duration::from_micros(200));
                }
            }
        }
    }
    n
}

#[derive(Debug)]
enum AOut {
    Connected { peer: SocketAddr, local_ip: IpAddr },
    Err(String),
}

fn err_name(e: &ConnectError) -> String {
    match e {
        ConnectError::Resolver(_) => "Resolver".into(),
        ConnectError::NoRecords => "NoRecords".into(),
        ConnectError::InvalidInput => "InvalidInput".into(),
        ConnectError::Unresolved => "Unresolved".into(),
        ConnectError::Io(e) => format!("Io({:?})", e.kind()),
        _ => "Other".into(),
    }
}

fn check_a(rt: &tokio::runtime::Runtime, c: &ACase) -> Option<(String, String)> {
    let targets: Vec<Target> = c.list.iter().map(|live| make_target(*live)).collect();
    // a decoy: a live listener that the host string / resolver points at when addresses are pre-set
    let decoy = make_target(true);
    let addrs: Vec<SocketAddr> = targets.iter().map(|t| t.addr).collect();
    let calls = Rc::new(RefCell::new(vec![]));
    // what the host string says
    let literal_target: SocketAddr = match c.supply {
        Supply::IpLiteral => addrs.first().copied().unwrap_or(decoy.addr),
        _ => decoy.addr,
    };
    let host: String = match c.host {
        HostForm::Name => "name.test".into(),
        HostForm::NameWithPort => format!("name.test:{}", literal_target.port()),
        HostForm::OsKnownNameWithPort => format!("localhost:{}", literal_target.port()),
        HostForm::Ip => format!("{}", literal_target.ip()),
        HostForm::IpWithPort => format!("{}:{}", literal_target.ip(), literal_target.port()),
    };
    let mut req = ConnectInfo::new(host.clone());
    if matches!(c.host, HostForm::Name | HostForm::Ip) {
        req = req.set_port(literal_target.port());
    }
    if c.supply == Supply::Preset {
        req = req.set_addrs(addrs.clone());
    }
    if c.local_bind {
        req = req.set_local_addr(IpAddr::V4(BIND_IP));
    }
    let resolver_answer = match c.supply {
        Supply::ResolverOk => Ok(addrs.clone()),
        Supply::ResolverErr => Err("lookup failed".to_string()),
        // if the resolver is (wrongly) consulted it leads to the decoy
        _ => Ok(vec![decoy.addr]),
    };
    let resolver = Resolver::custom(LogResolver { answer: resolver_answer, calls: calls.clone() });
    let out: AOut = rt.block_on(async {
        let res = if c.bare_tcp {
            let svc = connect::tcp::TcpConnector::default().service();
            tokio::time::timeout(Duration::from_secs(10), svc.call(req)).await
        } else {
            let svc = Connector::new(resolver).service();
            tokio::time::timeout(Duration::from_secs(10), svc.call(req)).await
        };
        match res {
            Err(_) => AOut::Err("hang (10 s)".into()),
            Ok(Ok(conn)) => {
                let (io, _req) = conn.into_parts();
                AOut::Connected { peer: io.peer_addr().unwrap(), local_ip: io.local_addr().unwrap().ip() }
            }
            Ok(Err(e)) => AOut::Err(err_name(&e)),
        }
    });
    let calls = calls.borrow().clone();
    let bad = |sig: &str, msg: String| Some((format!("C19:{sig}"), format!("{msg}; request host {host:?}, outcome {:?}, resolver calls {:?}", out, calls)));
    // ---- expectations from the statement
    let host_is_ip = matches!(c.host, HostForm::Ip | HostForm::IpWithPort);
    let (expect_list, resolver_expected): (Option<Vec<(SocketAddr, bool)>>, bool) = if c.bare_tcp {
        if c.supply == Supply::Preset && !addrs.is_empty() {
            (Some(addrs.iter().copied().zip(c.list.iter().copied()).collect()), false)
        } else {
            (None, false)
        }
    } else if c.supply == Supply::Preset && !addrs.is_empty() {
        (Some(addrs.iter().copied().zip(c.list.iter().copied()).collect()), false)
    } else if host_is_ip {
        let live = if c.supply == Supply::IpLiteral { c.list.first().copied().unwrap_or(true) } else { true };
        (Some(vec![(literal_target, live)]), false)
    } else {
        match c.supply {
            Supply::ResolverOk => (Some(addrs.iter().copied().zip(c.list.iter().copied()).collect()), true),
            Supply::ResolverErr => (None, true),
            // Preset with an empty list, or IpLiteral supply with a name host: the resolver is asked and answers with the decoy
            _ => (Some(vec![(decoy.addr, true)]), true),
        }
    };
    if !resolver_expected && !calls.is_empty() {
        return bad("resolved-although-not-needed", "the resolver was consulted although the request already carried addresses / its host is an IP literal".into());
    }
    if resolver_expected && !c.bare_tcp {
        if calls.len() != 1 {
            return bad("resolver-not-called-once", format!("the resolver was called {} times", calls.len()));
        }
        let want_name = if c.host == HostForm::OsKnownNameWithPort { "localhost" } else { "name.test" };
        if calls[0].0 != want_name || calls[0].1 != literal_target.port() {
            return bad("resolver-called-with-wrong-arguments", format!("the resolver was asked for {:?}, expected ({:?}, {})", calls[0], want_name, literal_target.port()));
        }
    }
    match (&out, &expect_list) {
        (AOut::Err(e), None) => {
            let want = if c.bare_tcp { "Unresolved" } else { "Resolver" };
            if e != want {
                return bad("wrong-error-variant", format!("expected ConnectError::{want}"));
            }
        }
        (AOut::Err(e), Some(list)) if list.is_empty() => {
            if e != "NoRecords" {
                return bad("wrong-error-variant", "an empty answer of the resolver must give ConnectError::NoRecords".into());
            }
        }
        (AOut::Err(e), Some(list)) => {
            if list.iter().any(|(_, live)| *live) {
                return bad("failed-although-a-target-is-live", format!("error {e} although {:?} contains a live listener", list));
            }
            if !e.starts_with("Io(") {
                return bad("wrong-error-variant", "all targets closed must give ConnectError::Io".into());
            }
        }
        (AOut::Connected { .. }, None) => return bad("connected-although-unresolvable", "a connection was returned although resolution cannot have produced an address".into()),
        (AOut::Connected { peer, local_ip }, Some(list)) => {
            let first_live = list.iter().find(|(_, live)| *live).map(|(a, _)| *a);
            match first_live {
                None => return bad("connected-to-unknown-target", "connected although every listed target is closed".into()),
                Some(want) => {
                    if *peer != want {
                        let sig = if *peer == decoy.addr { "re-resolved-or-literal-used-instead-of-preset" } else { "not-first-live-in-order" };
                        return bad(sig, format!("connected to {peer}, the first live address in order is {want}"));
                    }
                }
            }
            if c.local_bind && *local_ip != IpAddr::V4(BIND_IP) {
                return bad("local-bind-ignored", format!("local address {local_ip}, requested {BIND_IP}"));
            }
            // exactly the chosen listener saw a connection
            for (i, t) in targets.iter().enumerate() {
                let want = (Some(t.addr) == first_live) as usize;
                let n = accepts(t, want);
                if n != want {
                    return bad("unexpected-connection-attempts", format!("listener #{i} ({}) accepted {n} connection(s), expected {want}", t.addr));
                }
            }
            let dwant = (first_live == Some(decoy.addr)) as usize;
            let dn = accepts(&decoy, dwant);
            if dn != dwant {
                return bad("unexpected-connection-attempts", format!("the decoy listener accepted {dn} connection(s)"));
            }
        }
    }
    None
}

fn a_cases(max_len: usize) -> Vec<ACase> {
    let mut out = vec![];
    for len in 0..=max_len {
        let mut lists: Vec<Vec<bool>> = vec![];
        mcutil::for_each_seq(2, len, |s| lists.push(s.iter().map(|b| *b == 1).collect()));
        for list in lists {
            for supply in [Supply::Preset, Supply::ResolverOk, Supply::ResolverErr, Supply::IpLiteral] {
                if matches!(supply, Supply::ResolverErr | Supply::IpLiteral) && len > 1 {
                    continue; // the list plays no role beyond its first entry
                }
                for host in [HostForm::Name, HostForm::NameWithPort, HostForm::OsKnownNameWithPort, HostForm::Ip, HostForm::IpWithPort] {
                    for local_bind in [false, true] {
                        if local_bind && len > 2 {
                            continue;
                        }
                        out.push(ACase { list: list.clone(), supply, host, local_bind, bare_tcp: false });
                    }
                }
            }
            // bare TCP connector: pre-set or nothing
            for supply in [Supply::Preset, Supply::ResolverOk] {
                out.push(ACase { list: list.clone(), supply, host: HostForm::Name, local_bind: false, bare_tcp: true });
            }
        }
    }
    out
}

/// Things outside the matrix: IPv6 pre-set address, the default resolver.
fn a_extras(rt: &tokio::runtime::Runtime, bag: &mut VioBag) -> u64 {
    let mut n = 0;
    // IPv6
    if let Ok(l) = TcpListener::bind("[::1]:0") {
        n += 1;
        let addr = l.local_addr().unwrap();
        let out = rt.block_on(async { Connector::default().service().call(ConnectInfo::new("name.test".to_string()).set_addr(addr)).await.map(|c| c.into_parts().0.peer_addr().unwrap()) });
        if out.as_ref().ok() != Some(&addr) {
            bag.add("C19:ipv6-preset", || Violation { signature: "C19:ipv6-preset".into(), summary: format!("pre-set IPv6 address {addr}: {:?}", out.map_err(|e| err_name(&e))), replay: json!({"part": "extras"}) });
        }
    }
    // default resolver: localhost resolves through the system, IP literal bypasses it
    let l = TcpListener::bind("127.0.0.1:0").unwrap();
    let port = l.local_addr().unwrap().port();
    for host in [format!("localhost:{port}"), format!("127.0.0.1:{port}")] {
        n += 1;
        let h2 = host.clone();
        let out = rt.block_on(async move { tokio::time::timeout(Duration::from_secs(5), Connector::default().service().call(ConnectInfo::new(h2))).await });
        match out {
            Ok(Ok(c)) => {
                let peer = c.into_parts().0.peer_addr().unwrap();
                if peer.port() != port {
                    bag.add("C19:default-resolver", || Violation { signature: "C19:default-resolver".into(), summary: format!("{host}: connected to {peer}"), replay: json!({"part": "extras"}) });
                }
            }
            Ok(Err(e)) => bag.add("C19:default-resolver", || Violation { signature: "C19:default-resolver".into(), summary: format!("{host}: {}", err_name(&e)), replay: json!({"part": "extras"}) }),
            Err(_) => {} // lookup slower than 5 s: skipped
        }
    }
    // unknown name through the default resolver: Resolver error (skipped if the lookup is slow)
    n += 1;
    let out = rt.block_on(async { tokio::time::timeout(Duration::from_secs(2), Connector::default().service().call(ConnectInfo::new("no-such-host.invalid:80".to_string()))).await });
    if let Ok(Ok(_)) = out {
        bag.add("C19:default-resolver", || Violation { signature: "C19:default-resolver".into(), summary: "an unknown host name produced a connection".into(), replay: json!({"part": "extras"}) });
    } else if let Ok(Err(e)) = out {
        if !matches!(e, ConnectError::Resolver(_) | ConnectError::NoRecords) {
            bag.add("C19:default-resolver", || Violation { signature: "C19:default-resolver".into(), summary: format!("unknown host name: {}", err_name(&e)), replay: json!({"part": "extras"}) });
        }
    }
    // all candidates fail, in different ways: the error of the *last* one is reported. Candidates:
    // a closed port on the harness address (refused) and an IPv6 loopback port dialled from an
    // IPv4 local address (refused by the kernel before anything is sent, a different errno);
    // the reference is what each candidate gives when it is dialled alone.
    {
        let (closed_t, closed2_t) = (make_target(false), make_target(false));
        let (closed, closed2) = (closed_t.addr, closed2_t.addr);
        let v6: SocketAddr = "[::1]:9".parse().unwrap();
        let dial = |list: Vec<SocketAddr>| -> Result<SocketAddr, (String, Option<i32>)> {
            rt.block_on(async {
                let req = ConnectInfo::new("name.test".to_string()).set_addrs(list).set_local_addr(IpAddr::V4(BIND_IP));
                match tokio::time::timeout(Duration::from_secs(10), connect::tcp::TcpConnector::default().service().call(req)).await {
                    Err(_) => Err(("hang".to_string(), None)),
                    Ok(Ok(c)) => Ok(c.into_parts().0.peer_addr().unwrap()),
                    Ok(Err(ConnectError::Io(e))) => Err((format!("Io({:?})", e.kind()), e.raw_os_error())),
                    Ok(Err(e)) => Err((err_name(&e), None)),
                }
            })
        };
        let alone: Vec<(SocketAddr, Result<SocketAddr, (String, Option<i32>)>)> = [closed, v6, closed2].into_iter().map(|a| (a, dial(vec![a]))).collect();
        let distinct = alone[0].1 != alone[1].1 && alone.iter().all(|(_, r)| r.is_err());
        if distinct {
            let idx_lists: Vec<Vec<usize>> = vec![vec![0, 1], vec![1, 0], vec![0, 1, 2], vec![1, 0, 2], vec![0, 2, 1], vec![1, 2, 0], vec![1, 1, 0], vec![0, 0, 1]];
            for il in idx_lists {
                n += 1;
                let list: Vec<SocketAddr> = il.iter().map(|i| alone[*i].0).collect();
                let got = dial(list.clone());
                let want = alone[*il.last().unwrap()].1.clone();
                if got != want {
                    bag.add("C19:not-the-last-io-error", || Violation {
                        signature: "C19:not-the-last-io-error".into(),
                        summary: format!("every address of {:?} fails; the connector reported {:?}, the last candidate alone gives {:?} (first alone: {:?})", list, got, want, alone[il[0]].1),
                        replay: json!({"part": "extras"}),
                    });
                }
            }
        }
    }
    // a request whose pre-set addresses were taken out (`take_addrs`) is unresolved again: the TCP
    // connector answers `Unresolved`, a connector with a resolver consults it
    for n_addrs in 1..=2usize {
        let live = make_target(true);
        let stale_t: Vec<Target> = (0..n_addrs).map(|_| make_target(false)).collect();
        let stale: Vec<SocketAddr> = stale_t.iter().map(|t| t.addr).collect();
        for via_resolver in [false, true] {
            n += 1;
            let calls = Rc::new(RefCell::new(vec![]));
            let mut req = ConnectInfo::new("name.test".to_string()).set_port(live.addr.port()).set_addrs(stale.clone());
            let taken: Vec<SocketAddr> = req.take_addrs().collect();
            let left = req.addrs().count();
            let out = rt.block_on(async {
                if via_resolver {
                    let resolver = Resolver::custom(LogResolver { answer: Ok(vec![live.addr]), calls: calls.clone() });
                    tokio::time::timeout(Duration::from_secs(10), Connector::new(resolver).service().call(req)).await.map(|r| r.map(|c| c.into_parts().0.peer_addr().unwrap()).map_err(|e| err_name(&e)))
                } else {
                    tokio::time::timeout(Duration::from_secs(10), connect::tcp::TcpConnector::default().service().call(req)).await.map(|r| r.map(|c| c.into_parts().0.peer_addr().unwrap()).map_err(|e| err_name(&e)))
                }
            });
            let ok = taken == stale && left == 0 && match (&out, via_resolver) {
                (Ok(Ok(peer)), true) => *peer == live.addr && calls.borrow().len() == 1,
                (Ok(Err(e)), false) => e == "Unresolved",
                _ => false,
            };
            if !ok {
                bag.add("C19:request-still-resolved-after-take_addrs", || Violation {
                    signature: "C19:request-still-resolved-after-take_addrs".into(),
                    summary: format!("request with {n_addrs} pre-set address(es), all taken out with take_addrs (returned {:?}, {left} left on the request), then sent to {}: {:?}, resolver calls {:?}", taken, if via_resolver { "a Connector with a custom resolver (expected: resolver consulted once, its address dialled)" } else { "the bare TcpConnector (expected: Unresolved)" }, out, calls.borrow()),
                    replay: json!({"part": "extras"}),
                });
            }
        }
    }
    // a Connector used as a ServiceFactory keeps its configured resolver
    {
        use actix_service::ServiceFactory;
        let live = make_target(true);
        for answer in [Ok(vec![live.addr]), Ok(vec![]), Err("lookup failed".to_string())] {
            n += 1;
            let calls = Rc::new(RefCell::new(vec![]));
            let resolver = Resolver::custom(LogResolver { answer: answer.clone(), calls: calls.clone() });
            let connector = Connector::new(resolver);
            let out = rt.block_on(async {
                let svc = ServiceFactory::<ConnectInfo<String>>::new_service(&connector, ()).await.expect("new_service");
                tokio::time::timeout(Duration::from_secs(10), svc.call(ConnectInfo::new(format!("name.test:{}", live.addr.port())))).await.map(|r| r.map(|c| c.into_parts().0.peer_addr().unwrap()).map_err(|e| err_name(&e)))
            });
            let want: Result<SocketAddr, String> = match &answer {
                Ok(v) if v.is_empty() => Err("NoRecords".into()),
                Ok(v) => Ok(v[0]),
                Err(_) => Err("Resolver".into()),
            };
            let got = match out {
                Ok(r) => r,
                Err(_) => Err("hang".into()),
            };
            if got != want || calls.borrow().len() != 1 {
                bag.add("C19:service-built-by-the-factory-ignores-the-resolver", || Violation {
                    signature: "C19:service-built-by-the-factory-ignores-the-resolver".into(),
                    summary: format!("Connector::new(custom resolver) used as a ServiceFactory (new_service): outcome {:?}, expected {:?}; the custom resolver was called {} time(s), expected 1", got, want, calls.borrow().len()),
                    replay: json!({"part": "extras"}),
                });
            }
        }
    }
    // a bare ResolverService leaves pre-set addresses alone
    n += 1;
    let keep: SocketAddr = "127.89.7.9:4242".parse().unwrap();
    let out = rt.block_on(async { ResolverService::default().call(ConnectInfo::new("127.0.0.1:80".to_string()).set_addr(keep)).await.map(|r| r.addrs().collect::<Vec<_>>()) });
    if out.as_ref().ok() != Some(&vec![keep]) {
        bag.add("C19:re-resolved-or-literal-used-instead-of-preset", || Violation { signature: "C19:re-resolved-or-literal-used-instead-of-preset".into(), summary: format!("resolver output {:?} for a request with pre-set address {keep} and an IP-literal host", out.map_err(|e| err_name(&e))), replay: json!({"part": "extras"}) });
    }
    n
}

// ---------------------------------------------------------------------------------------
// (b) TLS connectors
// ---------------------------------------------------------------------------------------

#[derive(Clone, Copy, Debug, PartialEq, Eq)]
enum Lib {
    Rustls,
    Openssl,
}
#[derive(Clone, Copy, Debug, PartialEq, Eq)]
enum Cert {
    CoversName,
    OtherName,
    UntrustedIssuer,
}
#[derive(Clone, Copy, Debug, PartialEq, Eq)]
enum Name {
    Matching,
    MatchingWithPort,
    NotMatching,
    Invalid,
}

struct TlsWorld {
    trusted: Ca,
    good: Leaf,
    other: Leaf,
    rogue: Leaf,
}

type CliFut = Pin<Box<dyn Future<Output = io::Result<Box<dyn Rw>>>>>;

fn tls_case(w: &TlsWorld, lib: Lib, cert: Cert, name: Name) -> Option<(String, String)> {
    let (client_end, server_end, ctl): (End, End, Control) = pipe();
    let leaf = match cert {
        Cert::CoversName => &w.good,
        Cert::OtherName => &w.other,
        Cert::UntrustedIssuer => &w.rogue,
    };
    let host: String = match name {
        Name::Matching => "good.test".into(),
        Name::MatchingWithPort => "good.test:8443".into(),
        Name::NotMatching => "elsewhere.test".into(),
        Name::Invalid => "bad name!".into(),
    };
    let acceptor = tokio_rustls::TlsAcceptor::from(Arc::new(tlsutil::rustls_server_config(leaf)));
    let mut sfut: Pin<Box<dyn Future<Output = io::Result<Box<dyn Rw>>>>> = Box::pin(async move { acceptor.accept(server_end).await.map(|s| Box::new(s) as Box<dyn Rw>) });
    let conn = Connection::new(host.clone(), client_end);
    let mut cfut: CliFut = match lib {
        Lib::Rustls => {
            let svc = connect::rustls_0_23::TlsConnector::service(tlsutil::rustls_client_config(&w.trusted));
            let f = svc.call(conn);
            Box::pin(async move { f.await.map(|c| Box::new(c.into_parts().0) as Box<dyn Rw>) })
        }
        Lib::Openssl => {
            let svc = connect::openssl::TlsConnector::service(tlsutil::openssl_connector(&w.trusted));
            let f = svc.call(conn);
            Box::pin(async move { f.await.map(|c| Box::new(c.into_parts().0) as Box<dyn Rw>) })
        }
    };
    let (sf, cf) = (Flag::new(), Flag::new());
    let (mut sres, mut cres) = (None, None);
    for _ in 0..60 {
        if cres.is_none() && cf.take() {
            let wk = Waker::from(cf.clone());
            if let Poll::Ready(r) = cfut.as_mut().poll(&mut Context::from_waker(&wk)) {
                cres = Some(r);
            }
        }
        if sres.is_none() && sf.take() {
            let wk = Waker::from(sf.clone());
            if let Poll::Ready(r) = sfut.as_mut().poll(&mut Context::from_waker(&wk)) {
                sres = Some(r);
            }
        }
        if cres.is_some() && (sres.is_some() || matches!(cres, Some(Err(_)))) {
            break;
        }
        let moved = ctl.deliver_all(0) + ctl.deliver_all(1);
        if moved == 0 && cres.is_none() && sres.is_some() {
            // server gave up (alert sent): make sure the client sees the end of the stream
            ctl.close(1);
        }
    }
    let should_succeed = cert == Cert::CoversName && matches!(name, Name::Matching | Name::MatchingWithPort);
    let k = format!("{:?}", lib).to_lowercase();
    let ctx = format!("connector {k}, certificate {:?}, requested host {host:?}", cert);
    match (cres, should_succeed) {
        (None, _) => Some((format!("C19:tls-connect-hangs:{k}"), format!("the connector future never resolved ({ctx})"))),
        (Some(Ok(_)), false) => {
            let sig = match (cert, name) {
                (Cert::UntrustedIssuer, _) => "tls-accepts-untrusted-issuer",
                (_, Name::Invalid) => "tls-accepts-invalid-name",
                _ => "tls-accepts-certificate-for-another-name",
            };
            Some((format!("C19:{sig}:{k}"), format!("the TLS connector succeeded although the server's certificate is not valid for the requested host name ({ctx})")))
        }
        (Some(Err(e)), true) => Some((format!("C19:tls-rejects-valid-certificate:{k}"), format!("handshake failed with {e} ({ctx})"))),
        (Some(Err(_)), false) => None,
        (Some(Ok(cli)), true) => match sres {
            Some(Ok(srv)) => crate::c18::echo_pub(&ctl, srv, cli, 20000, 4096).err().map(|e| (format!("C19:tls-data-not-intact:{k}"), format!("{e} ({ctx})"))),
            _ => Some((format!("C19:tls-server-side-failed:{k}"), format!("client connected but the server side did not complete ({ctx})"))),
        },
    }
}

pub fn run(args: &Args) -> i32 {
    let mut rep = Report::new(args, "model_checking");
    let rt = tokio::runtime::Builder::new_current_thread().enable_all().build().unwrap();
    if let Some(p) = &args.replay {
        let r = mcutil::load_replay(p);
        if r["part"] == "connect" {
            let c = acase_from(&r);
            let v = check_a(&rt, &c);
            println!("{:?}\nreplay verdict: {}", c, match &v { Some((s, m)) => format!("violates ({s}: {m})"), None => "holds".into() });
            if let Some((s, m)) = v {
                rep.violation(Violation { signature: s, summary: m, replay: r.clone() });
            }
        } else {
            println!("re-run by the normal check (deterministic)");
        }
        return rep.finish();
    }
    let mut bag = VioBag::default();
    // ---- (a)
    let cases = a_cases(args.opt_usize("len", 4));
    let mut fallback = 0u64;
    let mut steps = 0u64;
    for c in &cases {
        steps += c.list.len() as u64 + 2;
        if c.list.iter().position(|l| *l).map_or(false, |p| p > 0) {
            fallback += 1;
        }
        if let Some((sig, msg)) = check_a(&rt, c) {
            bag.add(&sig.clone(), || Violation { signature: sig.clone(), summary: format!("{msg} [{:?}]", c), replay: acase_json(c) });
        }
    }
    let extras = a_extras(&rt, &mut bag);
    rep.set("connect_cases", cases.len());
    rep.set("connect_cases_needing_fallback_past_a_closed_port", fallback);
    rep.set("connect_extras", extras);
    // ---- (b)
    let trusted = tlsutil::new_ca("trusted CA");
    let rogue_ca = tlsutil::new_ca("rogue CA");
    let w = TlsWorld { good: tlsutil::new_leaf(&trusted, &["good.test"]), other: tlsutil::new_leaf(&trusted, &["other.test"]), rogue: tlsutil::new_leaf(&rogue_ca, &["good.test"]), trusted };
    let mut tls_cases = 0u64;
    let mut tls_refused = 0u64;
    {
        let _g = rt.enter();
        for lib in [Lib::Rustls, Lib::Openssl] {
            for cert in [Cert::CoversName, Cert::OtherName, Cert::UntrustedIssuer] {
                for name in [Name::Matching, Name::MatchingWithPort, Name::NotMatching, Name::Invalid] {
                    tls_cases += 1;
                    if !(cert == Cert::CoversName && matches!(name, Name::Matching | Name::MatchingWithPort)) {
                        tls_refused += 1;
                    }
                    let r = mcutil::quiet_catch(|| tls_case(&w, lib, cert, name));
                    match r {
                        Ok(None) => {}
                        Ok(Some((sig, msg))) => bag.add(&sig.clone(), || Violation { signature: sig.clone(), summary: msg.clone(), replay: json!({"part": "tls", "lib": format!("{:?}", lib), "cert": format!("{:?}", cert), "name": format!("{:?}", name)}) }),
                        Err(p) => {
                            // the OpenSSL connector panics on a host name it cannot configure ("SSL connect configuration was invalid")
                            let m = mcutil::panic_message(&*p);
                            if !(lib == Lib::Openssl && name == Name::Invalid) {
                                bag.add("C19:tls-connector-panicked", || Violation { signature: "C19:tls-connector-panicked".into(), summary: format!("{m} ({:?} {:?} {:?})", lib, cert, name), replay: json!({"part": "tls"}) });
                            }
                        }
                    }
                }
            }
        }
    }
    bag.drain_into(&mut rep);
    rep.set("tls_connector_cases", tls_cases);
    rep.set("tls_connector_cases_that_must_be_refused", tls_refused);
    let total = cases.len() as u64 + extras + tls_cases;
    rep.set("states", steps + total);
    rep.set("transitions", steps + tls_cases * 4);
    rep.set("traces_validated_against_impl", total);
    rep.set("exhaustive", true);
    rep.sample(json!({"part": "connect", "list": [false, false, true, true], "supply": "Preset", "host": "IpWithPort", "expect": "connected to entry #2, listener #3 and the decoy behind the IP-literal host string saw nothing, the resolver was never called"}));
    rep.sample(json!({"part": "tls", "lib": "Openssl", "cert": "OtherName", "name": "Matching", "expect": "handshake error"}));
    rep.assume("a closed port is a port on a private loopback address (127.89.7.1) that a socket of the harness has bound without listening: connects are refused, and nobody else can be given the port while the case runs");
    rep.assume("TLS server side is tokio-rustls for both connector kinds; certificates from rcgen");
    rep.finish()
}
