pub fn run(_: &mcutil::Args) -> i32 { 2 }
