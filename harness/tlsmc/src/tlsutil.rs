//! Certificates (rcgen) and TLS peers for the harness.

use std::sync::Arc;

use rcgen::{BasicConstraints, CertificateParams, IsCa, KeyPair};
use rustls_pki_types::{CertificateDer, PrivateKeyDer, PrivatePkcs8KeyDer, ServerName};
use tokio_rustls::rustls::{ClientConfig, RootCertStore, ServerConfig};

pub struct Ca {
    pub cert: rcgen::Certificate,
    pub key: KeyPair,
}

pub struct Leaf {
    pub cert_der: Vec<u8>,
    pub key_der: Vec<u8>,
    pub cert_pem: String,
    pub key_pem: String,
}

pub fn install_provider() {
    let _ = tokio_rustls::rustls::crypto::aws_lc_rs::default_provider().install_default();
}

pub fn new_ca(name: &str) -> Ca {
    let mut params = CertificateParams::new(Vec::<String>::new()).unwrap();
    params.is_ca = IsCa::Ca(BasicConstraints::Unconstrained);
    params.distinguished_name.push(rcgen::DnType::CommonName, name);
    let key = KeyPair::generate().unwrap();
    let cert = params.self_signed(&key).unwrap();
    Ca { cert, key }
}

pub fn new_leaf(ca: &Ca, names: &[&str]) -> Leaf {
    let params = CertificateParams::new(names.iter().map(|s| s.to_string()).collect::<Vec<_>>()).unwrap();
    let key = KeyPair::generate().unwrap();
    let cert = params.signed_by(&key, &ca.cert, &ca.key).unwrap();
    Leaf { cert_der: cert.der().to_vec(), key_der: key.serialize_der(), cert_pem: cert.pem(), key_pem: key.serialize_pem() }
}

pub fn rustls_server_config(leaf: &Leaf) -> ServerConfig {
    ServerConfig::builder()
        .with_no_client_auth()
        .with_single_cert(vec![CertificateDer::from(leaf.cert_der.clone())], PrivateKeyDer::Pkcs8(PrivatePkcs8KeyDer::from(leaf.key_der.clone())))
        .unwrap()
}

pub fn rustls_client_config(trusted: &Ca) -> Arc<ClientConfig> {
    let mut roots = RootCertStore::empty();
    roots.add(CertificateDer::from(trusted.cert.der().to_vec())).unwrap();
    Arc::new(ClientConfig::builder().with_root_certificates(roots).with_no_client_auth())
}

pub fn server_name(name: &str) -> ServerName<'static> {
    ServerName::try_from(name.to_string()).unwrap()
}

pub fn openssl_acceptor(leaf: &Leaf) -> openssl::ssl::SslAcceptor {
    use openssl::{pkey::PKey, ssl::{SslAcceptor, SslMethod}, x509::X509};
    let mut b = SslAcceptor::mozilla_intermediate_v5(SslMethod::tls()).unwrap();
    b.set_certificate(&X509::from_pem(leaf.cert_pem.as_bytes()).unwrap()).unwrap();
    b.set_private_key(&PKey::private_key_from_pem(leaf.key_pem.as_bytes()).unwrap()).unwrap();
    b.build()
}

pub fn openssl_connector(trusted: &Ca) -> openssl::ssl::SslConnector {
    use openssl::{ssl::{SslConnector, SslMethod}, x509::X509};
    let mut b = SslConnector::builder(SslMethod::tls()).unwrap();
    b.cert_store_mut().add_cert(X509::from_pem(trusted.cert.pem().as_bytes()).unwrap()).unwrap();
    b.build()
}
