//! Engine D `tlsmc`: TLS acceptors/connectors over a controllable in-memory pipe, and the plain
//! connector against real loopback listeners (DESIGN §7).
mod c18;
mod c19;
mod pipe;
mod tlsutil;

fn main() {
    let args = mcutil::Args::parse();
    mcutil::silence_panics();
    tlsutil::install_provider();
    mcutil::guarded_main(|| match args.property.as_str() {
        "C18" => c18::run(&args),
        "C19" => c19::run(&args),
        other => mcutil::machinery_error(&format!("tlsmc does not serve {other}")),
    });
}
