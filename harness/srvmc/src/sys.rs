//! The system under exploration: the real `actix_server::Server` future, its real accept loop
//! and its real workers, all on the calling thread under a paused Tokio clock (DESIGN §4).
//! Every method of [`Sys`] applies exactly one event; nothing here predicts what the server does.

use std::{
    cell::{Cell, RefCell},
    collections::{BTreeMap, BTreeSet},
    future::Future,
    io::{self, Write},
    os::fd::{AsRawFd, RawFd},
    pin::Pin,
    rc::Rc,
    sync::{
        atomic::{AtomicBool, AtomicUsize, Ordering},
        Arc,
    },
    task::{Context, Poll, Wake, Waker},
    time::Duration,
};

use actix_server::{
    verif::{self, Observer, Point},
    Server, ServerHandle,
};
use actix_service::{fn_factory, Service};
use futures_core::future::LocalBoxFuture;
use tokio::sync::oneshot;

/// A place at which other actors may run: one of the hook points inside actix-server, or a point
/// of the harness itself.
#[derive(Debug, Clone, Copy, PartialEq, Eq)]
pub enum Pt {
    Hook(Point),
    /// a service of a worker that has just died is being dropped (the worker's other resources, in
    /// particular its end of the connection channel, are released before or after it depending on the
    /// field order of `ServerWorker`)
    ServiceDrop(usize),
}

pub struct Flag(AtomicBool);

impl Flag {
    pub fn new() -> Arc<Flag> {
        Arc::new(Flag(AtomicBool::new(false)))
    }
    pub fn get(&self) -> bool {
        self.0.load(Ordering::SeqCst)
    }
    pub fn clear(&self) {
        self.0.store(false, Ordering::SeqCst)
    }
    pub fn set(&self) {
        self.0.store(true, Ordering::SeqCst)
    }
}

impl Wake for Flag {
    fn wake(self: Arc<Self>) {
        self.set()
    }
    fn wake_by_ref(self: &Arc<Self>) {
        self.set()
    }
}

#[derive(Clone, Copy, PartialEq, Eq, Debug, Hash, PartialOrd, Ord)]
pub enum LKind {
    Tcp,
    Uds,
    /// the second address of the same `bind()` call as the listener before it (one `bind` with
    /// two addresses: two sockets, one service)
    TcpBindSecond,
}

impl Config {
    /// index of the service a connection on harness listener `l` belongs to
    pub fn svc_of(&self, l: usize) -> usize {
        self.listeners[..=l].iter().filter(|k| **k != LKind::TcpBindSecond).count() - 1
    }
}

#[derive(Clone, Debug)]
pub struct Config {
    pub workers: usize,
    pub listeners: Vec<LKind>,
    pub limit: usize,
    pub shutdown_timeout_s: u64,
    /// record every poll_ready of the scripted services (C07)
    pub log_ready: bool,
    /// a change of a service's readiness mode does not wake the worker by itself when the
    /// service holds no waker (the worker finds out whenever it polls next)
    pub silent_modes: bool,
    /// `new_service` futures of re-created services (instance >= 2) are Pending this many times
    /// before they resolve (asynchronous initialisation)
    pub factory_pending: usize,
}

#[derive(Clone, Copy, Debug, PartialEq, Eq, Hash, PartialOrd, Ord)]
pub enum Mode {
    Ready,
    Pending,
    ErrOnce,
    PanicOnce,
    /// ready; the next `call` panics (the worker dies with the connection's guard on the stack)
    PanicInCall,
}

#[derive(Clone, Copy, Debug, PartialEq, Eq, Hash, PartialOrd, Ord)]
pub enum ErrKind {
    /// EMFILE: resource exhaustion, must back off
    Emfile,
    /// ENFILE
    Enfile,
    Aborted,
    Reset,
    Refused,
    Interrupted,
}

#[derive(Clone, Copy, Debug, PartialEq, Eq, Hash, PartialOrd, Ord)]
pub enum Ev {
    // ---- environment
    Connect(usize),
    /// release connection c's service future, then let that worker run
    Complete(usize),
    /// connection c's service future panics (caught by the task), then that worker runs
    Fail(usize),
    /// the client of TCP connection c resets it (while it waits in a queue of the server)
    ClientReset(usize),
    Pause,
    Resume,
    Stop(bool),
    Signal(i32),
    /// drop the future returned by the i-th stop() call without ever polling it
    DropStop(usize),
    Advance(u64),
    Inject(usize, ErrKind),
    SetReady { slot: usize, svc: usize, mode: Mode },
    /// the dead worker's remaining tasks are dropped (its arbiter / thread goes away)
    Teardown(usize),
    // ---- internal (enabled only when the corresponding wake-up is observable)
    AcceptTurn,
    WorkerTurn(usize),
    ServerTurn,
}

impl Ev {
    pub fn is_internal(&self) -> bool {
        matches!(self, Ev::AcceptTurn | Ev::WorkerTurn(_) | Ev::ServerTurn)
    }
}

/// What happened, in order. `step` = index of the top-level event, `nested` = inside a
/// preemption point of that event.
#[derive(Clone, Debug, PartialEq, Eq)]
pub enum Rec {
    Connected { conn: usize, listener: usize },
    ConnectFailed { listener: usize, err: String },
    Dispatch { conn: Option<usize>, worker: usize, token: usize },
    DispatchFailed { conn: Option<usize> },
    Call { conn: Option<usize>, slot: usize, svc: usize, instance: usize },
    Done { conn: usize },
    Dropped { conn: usize },
    ReadyPoll { slot: usize, svc: usize, instance: usize, res: &'static str },
    FactoryNew { slot: usize, svc: usize, instance: usize },
    AcceptTokens(Vec<usize>),
    /// availability bits (low word) and handle order after an accept turn
    AcceptState { avail: u128, handles: Vec<usize>, next: usize, paused: bool },
    AcceptPanic(String),
    ServerPanic(String),
    SignalSent(i32),
    Injected { listener: usize, kind: ErrKind },
    /// the server task handled a Stop command (it woke the accept loop with Stop)
    StopProcessed,
    /// waker queue content at the start of an accept turn
    ConnPanicked { conn: usize },
    ClientReset { conn: usize },
    /// a pause / resume / stop call was made (its command is in the server task's channel now)
    CmdSent(Ev),
    AcceptQueueBefore(Vec<String>),
    /// the interests the accept loop took off its queue in this turn (those queued before the
    /// turn plus those pushed while it ran, minus what is left)
    AcceptProcessed(Vec<String>),
    QueuePushed(String),
    AcceptExited,
    AcceptJoin { exited: bool },
    WorkerGone { slot: usize },
    ServerDone { ok: bool },
    CmdDone { idx: usize },
    ClientEof { conn: usize },
    PointSeen(Pt),
    WorkerDying { slot: usize },
    Machinery(String),
}

struct Client {
    listener: usize,
    sock: ClientSock,
    port: u16,
    eof: bool,
    /// the client has reset its connection (closed it with SO_LINGER 0)
    reset: bool,
}

enum ClientSock {
    Tcp(std::net::TcpStream),
    Uds(std::os::unix::net::UnixStream),
}

impl ClientSock {
    fn fd(&self) -> RawFd {
        match self {
            ClientSock::Tcp(s) => s.as_raw_fd(),
            ClientSock::Uds(s) => s.as_raw_fd(),
        }
    }
}

pub enum LAddr {
    Tcp(std::net::SocketAddr),
    Uds(std::path::PathBuf),
}

pub struct CmdFut {
    pub kind: Ev,
    fut: Option<Pin<Box<dyn Future<Output = ()>>>>,
    pub done: bool,
    pub dropped: bool,
}

pub struct World {
    pub cfg: Config,
    pub log: RefCell<Vec<(usize, bool, Rec)>>,
    /// virtual time (ms since start) of every log entry
    pub log_ms: RefCell<Vec<u64>>,
    pub step: Cell<usize>,
    pub in_nested: Cell<bool>,
    // services
    modes: RefCell<BTreeMap<(usize, usize), Mode>>,
    ready_wakers: RefCell<BTreeMap<(usize, usize), Waker>>,
    inflight: RefCell<BTreeMap<usize, oneshot::Sender<bool>>>,
    instances: RefCell<BTreeMap<(usize, usize), usize>>,
    building_slot: Cell<Option<usize>>,
    current_turn_slot: Cell<Option<usize>>,
    // clients / listeners
    clients: RefCell<Vec<Client>>,
    pub laddrs: RefCell<Vec<LAddr>>,
    pub listener_fds: RefCell<Vec<RawFd>>,
    // actors
    server: RefCell<Option<Pin<Box<Server>>>>,
    pub server_done: Cell<Option<bool>>,
    pub handle: RefCell<Option<ServerHandle>>,
    server_flag: Arc<Flag>,
    worker_flags: RefCell<Vec<Arc<Flag>>>,
    pub worker_finished: RefCell<BTreeSet<usize>>,
    pub torn_down: RefCell<BTreeSet<usize>>,
    pub cmds: RefCell<Vec<CmdFut>>,
    // preemption
    points: RefCell<Vec<Pt>>,
    /// server-side stream fd -> connection, recorded when the accept loop hands it over (a stream
    /// whose peer has reset it cannot be identified any more by asking the kernel)
    pub fd_conn: RefCell<BTreeMap<RawFd, usize>>,
    /// messages in the server task's channel that it has not taken yet, in order (commands and
    /// fault notices share one channel, so their relative order decides what happens next)
    pub server_inbox: RefCell<Vec<String>>,
    /// the accept loop is in the middle of `accept_step` (nested events run inside it)
    in_accept_step: Cell<bool>,
    pub unrepresentable_join: Cell<bool>,
    /// interests pushed to the waker queue since the current accept turn began
    turn_pushed: RefCell<Vec<String>>,
    /// generic nesting: per point of the current step, the internal events of other actors
    /// that are enabled at that very moment (filled only when `observe_points` is set)
    pub observe_points: Cell<bool>,
    point_enabled: RefCell<Vec<Vec<Ev>>>,
    /// ... and what is enabled right after the planned nested sequence ran (still at the point)
    after_plan_enabled: RefCell<Vec<Ev>>,
    /// slots whose worker died of an injected panic
    dying: RefCell<BTreeSet<usize>>,
    tearing_down: Cell<bool>,
    plan: RefCell<Option<(usize, Vec<Ev>)>>,
    // shadow of pending epoll edges (validated against the real poll result on every turn)
    /// pending edges in the order in which they became pending (= order of the epoll ready list)
    edges: RefCell<Vec<usize>>,
    pub accept_dead: Cell<bool>,
    pub last_accept_turn: Cell<Option<tokio::time::Instant>>,
    pub start: Cell<Option<tokio::time::Instant>>,
    pub accept_errors_consumed: Cell<usize>,
    pub nested_invalid: Cell<bool>,
    stop_seen: Cell<bool>,
}

thread_local! {
    static WORLD: RefCell<Option<Rc<World>>> = const { RefCell::new(None) };
}

fn world() -> Rc<World> {
    WORLD.with(|w| w.borrow().clone()).expect("no world on this thread")
}

static EXEC_COUNTER: AtomicUsize = AtomicUsize::new(0);

// ---------------------------------------------------------------------------------------
// scripted service
// ---------------------------------------------------------------------------------------

struct ScriptedSvc {
    slot: usize,
    svc: usize,
    instance: usize,
}

/// `new_service` future of the scripted factory: resolves at once for the first instance of a
/// service, after `factory_pending` self-woken Pending polls for a re-created one.
async fn create_service(svc: usize) -> Result<ScriptedSvc, ()> {
    let w = world();
    let slot = w.building_slot.get().or(w.current_turn_slot.get()).expect("service created outside a worker");
    let recreated = w.instances.borrow().get(&(slot, svc)).copied().unwrap_or(0) >= 1;
    if recreated {
        for _ in 0..w.cfg.factory_pending {
            let mut first = true;
            std::future::poll_fn(|cx| {
                if first {
                    first = false;
                    cx.waker().wake_by_ref();
                    Poll::Pending
                } else {
                    Poll::Ready(())
                }
            })
            .await;
        }
    }
    Ok(ScriptedSvc::create(svc))
}

impl ScriptedSvc {
    fn create(svc: usize) -> ScriptedSvc {
        let w = world();
        let slot = w.building_slot.get().or(w.current_turn_slot.get()).expect("service created outside a worker");
        let mut inst = w.instances.borrow_mut();
        let n = inst.entry((slot, svc)).or_insert(0);
        *n += 1;
        let instance = *n;
        drop(inst);
        w.rec(Rec::FactoryNew { slot, svc, instance });
        ScriptedSvc { slot, svc, instance }
    }
}

impl Drop for ScriptedSvc {
    fn drop(&mut self) {
        if let Some(w) = WORLD.with(|w| w.borrow().clone()) {
            if !w.tearing_down.get() && w.dying.borrow().contains(&self.slot) {
                w.at_point(Pt::ServiceDrop(self.slot));
            }
        }
    }
}

impl<Io: AsRawFd + 'static> Service<Io> for ScriptedSvc {
    type Response = ();
    type Error = ();
    type Future = LocalBoxFuture<'static, Result<(), ()>>;

    fn poll_ready(&self, cx: &mut Context<'_>) -> Poll<Result<(), ()>> {
        let w = world();
        let key = (self.slot, self.svc);
        let mode = w.modes.borrow().get(&key).copied().unwrap_or(Mode::Ready);
        let (res, name): (Poll<Result<(), ()>>, &'static str) = match mode {
            Mode::Ready | Mode::PanicInCall => (Poll::Ready(Ok(())), "ready"),
            Mode::Pending => {
                w.ready_wakers.borrow_mut().insert(key, cx.waker().clone());
                (Poll::Pending, "pending")
            }
            Mode::ErrOnce => {
                w.modes.borrow_mut().insert(key, Mode::Ready);
                (Poll::Ready(Err(())), "err")
            }
            Mode::PanicOnce => {
                w.modes.borrow_mut().insert(key, Mode::Ready);
                if w.cfg.log_ready {
                    w.rec(Rec::ReadyPoll { slot: self.slot, svc: self.svc, instance: self.instance, res: "panic" });
                }
                w.dying.borrow_mut().insert(self.slot);
                w.rec(Rec::WorkerDying { slot: self.slot });
                panic!("injected service panic (worker {} dies)", self.slot);
            }
        };
        if w.cfg.log_ready {
            w.rec(Rec::ReadyPoll { slot: self.slot, svc: self.svc, instance: self.instance, res: name });
        }
        res
    }

    fn call(&self, io: Io) -> Self::Future {
        let w = world();
        let conn = w.identify(io.as_raw_fd());
        w.rec(Rec::Call { conn, slot: self.slot, svc: self.svc, instance: self.instance });
        if w.modes.borrow().get(&(self.slot, self.svc)).copied() == Some(Mode::PanicInCall) {
            w.modes.borrow_mut().insert((self.slot, self.svc), Mode::Ready);
            w.dying.borrow_mut().insert(self.slot);
            w.rec(Rec::WorkerDying { slot: self.slot });
            if let Some(c) = conn {
                w.rec(Rec::Dropped { conn: c });
            }
            drop(w);
            panic!("injected service panic inside call (worker {} dies) (expected-by-harness)", self.slot);
        }
        let (tx, rx) = oneshot::channel::<bool>();
        if let Some(c) = conn {
            w.inflight.borrow_mut().insert(c, tx);
        } else {
            std::mem::forget(tx);
        }
        struct OnDrop(Option<usize>, bool);
        impl Drop for OnDrop {
            fn drop(&mut self) {
                if let (Some(c), false) = (self.0, self.1) {
                    if let Some(w) = WORLD.with(|w| w.borrow().clone()) {
                        w.inflight.borrow_mut().remove(&c);
                        w.rec(Rec::Dropped { conn: c });
                    }
                }
            }
        }
        Box::pin(async move {
            let mut guard = OnDrop(conn, false);
            let fail = rx.await == Ok(true);
            guard.1 = true;
            if let Some(c) = conn {
                world().rec(Rec::Done { conn: c });
            }
            if fail {
                if let Some(c) = conn {
                    world().rec(Rec::ConnPanicked { conn: c });
                }
                panic!("service future panics (expected-by-harness)");
            }
            drop(io);
            Ok(())
        })
    }
}

// ---------------------------------------------------------------------------------------
// observer
// ---------------------------------------------------------------------------------------

struct Obs(Rc<World>);

impl Observer for Obs {
    fn point(&self, point: Point) {
        let w = &self.0;
        if point == Point::AfterStopWake && !w.stop_seen.get() {
            // the server task is handling a Stop command right now (workers told, accept loop next)
            w.stop_seen.set(true);
            w.rec(Rec::StopProcessed);
        }
        w.at_point(Pt::Hook(point));
        if point == Point::AfterPush {
            // `mio::Waker::wake` follows immediately: the waker token's edge becomes pending
            w.add_edge(usize::MAX);
        }
    }

    fn dispatch(&self, worker: usize, token: usize, fd: RawFd) {
        let conn = self.0.identify(fd);
        if let Some(c) = conn {
            self.0.fd_conn.borrow_mut().insert(fd, c);
        }
        self.0.rec(Rec::Dispatch { conn, worker, token });
    }

    fn dispatch_failed(&self, _token: usize, fd: RawFd) {
        let conn = self.0.identify(fd);
        self.0.rec(Rec::DispatchFailed { conn });
    }

    fn poll_tokens(&self, tokens: &[usize]) {
        let w = &self.0;
        w.edges.borrow_mut().clear();
        w.rec(Rec::AcceptTokens(tokens.to_vec()));
    }

    fn worker_starting(&self, _idx: usize) {
        self.0.building_slot.set(Some(verif::worker_slots()));
    }

    fn accept_join(&self, exited: bool) {
        let w = &self.0;
        if !exited && w.in_accept_step.get() && !w.accept_dead.get() {
            // The server task reached its blocking join of the accept thread while that thread is
            // in the middle of a step. On real threads the join simply waits for the rest of the
            // step; one thread cannot suspend the server task inside a synchronous call, so this
            // schedule is not representable here and the execution is discarded.
            w.nested_invalid.set(true);
            w.unrepresentable_join.set(true);
            return;
        }
        w.rec(Rec::AcceptJoin { exited });
    }

    fn queue_pushed(&self, queue: &[String]) {
        if let Some(last) = queue.last() {
            self.0.turn_pushed.borrow_mut().push(last.clone());
            self.0.rec(Rec::QueuePushed(last.clone()));
        }
    }
}

// ---------------------------------------------------------------------------------------
// low-level probes
// ---------------------------------------------------------------------------------------

fn verif_listener_fds(v: &[RawFd]) -> Vec<RawFd> {
    v.to_vec()
}

fn fd_readable(fd: RawFd, timeout_ms: i32) -> bool {
    let mut p = libc::pollfd { fd, events: libc::POLLIN, revents: 0 };
    let r = unsafe { libc::poll(&mut p, 1, timeout_ms) };
    r > 0 && (p.revents & (libc::POLLIN | libc::POLLHUP | libc::POLLERR)) != 0
}

/// (fd, event mask, data) of every registration of the epoll instance, from /proc/self/fdinfo/<epfd>
fn epoll_registrations(epfd: RawFd) -> Vec<(RawFd, u32, u64)> {
    let mut out = vec![];
    if let Ok(s) = std::fs::read_to_string(format!("/proc/self/fdinfo/{epfd}")) {
        for line in s.lines() {
            if let Some(rest) = line.strip_prefix("tfd:") {
                let t: Vec<&str> = rest.split_whitespace().collect();
                // <fd> events: <hex> data: <hex> ...
                if t.len() >= 5 {
                    if let (Ok(fd), Ok(mask), Ok(data)) = (t[0].parse::<RawFd>(), u32::from_str_radix(t[2], 16), u64::from_str_radix(t[4], 16)) {
                        out.push((fd, mask, data));
                    }
                }
            }
        }
    }
    out
}

/// fds registered with the epoll instance, from /proc/self/fdinfo/<epfd>
fn registered_fds(epfd: RawFd) -> BTreeSet<RawFd> {
    let mut out = BTreeSet::new();
    if let Ok(s) = std::fs::read_to_string(format!("/proc/self/fdinfo/{epfd}")) {
        for line in s.lines() {
            if let Some(rest) = line.strip_prefix("tfd:") {
                if let Some(tok) = rest.split_whitespace().next() {
                    if let Ok(fd) = tok.parse::<RawFd>() {
                        out.insert(fd);
                    }
                }
            }
        }
    }
    out
}

fn peek_id(fd: RawFd) -> Option<usize> {
    let mut buf = [0u8; 2];
    let n = unsafe { libc::recv(fd, buf.as_mut_ptr() as *mut libc::c_void, 2, libc::MSG_PEEK | libc::MSG_DONTWAIT) };
    if n == 2 {
        Some(u16::from_be_bytes(buf) as usize)
    } else {
        None
    }
}

fn peer_addr(fd: RawFd) -> Option<(u32, u16)> {
    let mut addr: libc::sockaddr_storage = unsafe { std::mem::zeroed() };
    let mut len = std::mem::size_of::<libc::sockaddr_storage>() as libc::socklen_t;
    let r = unsafe { libc::getpeername(fd, &mut addr as *mut _ as *mut libc::sockaddr, &mut len) };
    if r != 0 {
        return None;
    }
    if addr.ss_family as i32 == libc::AF_INET {
        let a: &libc::sockaddr_in = unsafe { &*(&addr as *const _ as *const libc::sockaddr_in) };
        Some((u32::from_be(a.sin_addr.s_addr), u16::from_be(a.sin_port)))
    } else {
        None
    }
}

/// The loopback address client `id` of a world connects from: 127.90.hi.lo with hi.lo = id + 1.
fn client_ip(id: usize) -> u32 {
    (127u32 << 24) | (90 << 16) | ((id as u32 + 1) & 0xffff)
}

fn ip_client(ip: u32) -> Option<usize> {
    if ip >> 16 == ((127 << 8) | 90) && ip & 0xffff != 0 {
        Some((ip & 0xffff) as usize - 1)
    } else {
        None
    }
}

/// Blocking TCP connect from `client_ip(id)` (port chosen by the kernel).
fn tcp_connect_from(id: usize, to: &std::net::SocketAddr) -> io::Result<std::net::TcpStream> {
    use std::os::unix::io::FromRawFd;
    let to = match to {
        std::net::SocketAddr::V4(a) => *a,
        _ => return Err(io::Error::new(io::ErrorKind::Other, "ipv4 only")),
    };
    let fd = unsafe { libc::socket(libc::AF_INET, libc::SOCK_STREAM | libc::SOCK_CLOEXEC, 0) };
    if fd < 0 {
        return Err(io::Error::last_os_error());
    }
    let s = unsafe { std::net::TcpStream::from_raw_fd(fd) };
    let mk = |ip: u32, port: u16| {
        let mut a: libc::sockaddr_in = unsafe { std::mem::zeroed() };
        a.sin_family = libc::AF_INET as libc::sa_family_t;
        a.sin_port = port.to_be();
        a.sin_addr.s_addr = ip.to_be();
        a
    };
    let src = mk(client_ip(id), 0);
    let sz = std::mem::size_of::<libc::sockaddr_in>() as libc::socklen_t;
    if unsafe { libc::bind(fd, &src as *const _ as *const libc::sockaddr, sz) } != 0 {
        return Err(io::Error::last_os_error());
    }
    let dst = mk(u32::from(*to.ip()), to.port());
    loop {
        if unsafe { libc::connect(fd, &dst as *const _ as *const libc::sockaddr, sz) } == 0 {
            return Ok(s);
        }
        let e = io::Error::last_os_error();
        if e.kind() != io::ErrorKind::Interrupted {
            return Err(e);
        }
    }
}

/// Has the peer closed? (non-blocking, does not consume data)
fn client_sees_eof(fd: RawFd) -> bool {
    let mut buf = [0u8; 8];
    let n = unsafe { libc::recv(fd, buf.as_mut_ptr() as *mut libc::c_void, 8, libc::MSG_PEEK | libc::MSG_DONTWAIT) };
    if n == 0 {
        return true;
    }
    if n < 0 {
        let e = io::Error::last_os_error();
        return !matches!(e.kind(), io::ErrorKind::WouldBlock | io::ErrorKind::Interrupted);
    }
    false
}

// ---------------------------------------------------------------------------------------
// world
// ---------------------------------------------------------------------------------------

impl World {
    pub fn rec(&self, r: Rec) {
        self.log.borrow_mut().push((self.step.get(), self.in_nested.get(), r));
        let ms = match (self.start.get(), tokio::runtime::Handle::try_current().is_ok()) {
            (Some(s), true) => tokio::time::Instant::now().duration_since(s).as_millis() as u64,
            _ => 0,
        };
        self.log_ms.borrow_mut().push(ms);
    }

    fn identify(&self, fd: RawFd) -> Option<usize> {
        // every TCP client of a world connects from its own loopback address (`client_ip`): the
        // peer address names the client, whatever ports the kernel hands out (source ports repeat
        // across destinations and after a reset)
        if let Some((ip, port)) = peer_addr(fd) {
            let cl = self.clients.borrow();
            if let Some(c) = ip_client(ip) {
                if cl.get(c).map_or(false, |x| x.port == port && port != 0) {
                    return Some(c);
                }
            }
        }
        let id = peek_id(fd);
        if id.is_none() {
            // the kernel cannot say whose stream this is any more: a stream that the client has
            // reset. Only the hand-over record knows (looked at last, and only for a client that
            // did reset: descriptor numbers are reused)
            if let Some(c) = self.fd_conn.borrow().get(&fd).copied() {
                if self.clients.borrow().get(c).map_or(false, |cl| cl.reset) {
                    return Some(c);
                }
            }
        }
        if let Some(i) = id {
            let n = self.clients.borrow().len();
            if i >= n {
                let mut buf = [0u8; 8];
                let got = unsafe { libc::recv(fd, buf.as_mut_ptr() as *mut libc::c_void, 8, libc::MSG_PEEK | libc::MSG_DONTWAIT) };
                let mut ty: libc::c_int = 0;
                let mut len = std::mem::size_of::<libc::c_int>() as libc::socklen_t;
                unsafe { libc::getsockopt(fd, libc::SOL_SOCKET, libc::SO_DOMAIN, &mut ty as *mut _ as *mut libc::c_void, &mut len) };
                self.rec(Rec::Machinery(format!("accepted stream fd {fd} carries id {i} but only {n} clients exist (peeked {got} bytes {:?}, socket domain {ty}, listeners {:?})", &buf, self.cfg.listeners)));
                return None;
            }
        }
        id
    }

    /// Common handling of a preemption point: number it and run the planned nested events, if this
    /// is the planned point.
    fn at_point(&self, pt: Pt) {
        if self.in_nested.get() {
            return; // nesting depth 1
        }
        let ordinal = {
            let mut p = self.points.borrow_mut();
            p.push(pt);
            p.len() - 1
        };
        if self.observe_points.get() {
            let en = self.enabled_internal_now();
            self.point_enabled.borrow_mut().push(en);
        }
        let plan = {
            let mut plan = self.plan.borrow_mut();
            match &*plan {
                Some((at, _)) if *at == ordinal => plan.take(),
                _ => None,
            }
        };
        if let Some((_, evs)) = plan {
            self.in_nested.set(true);
            for ev in evs {
                self.rec(Rec::PointSeen(pt));
                self.apply_nested(ev);
            }
            if self.observe_points.get() && !self.nested_invalid.get() {
                *self.after_plan_enabled.borrow_mut() = self.enabled_internal_now();
            }
            self.in_nested.set(false);
        }
    }

    /// Internal events that could run right now (the actor that is in the middle of its own
    /// step is not "present": its task / loop object is taken out while it runs).
    fn enabled_internal_now(&self) -> Vec<Ev> {
        let mut out = vec![];
        for ev in std::iter::once(Ev::AcceptTurn).chain((0..verif::worker_slots()).map(Ev::WorkerTurn)).chain(std::iter::once(Ev::ServerTurn)) {
            if self.nested_enabled(ev) {
                out.push(ev);
            }
        }
        let inflight: Vec<usize> = self.inflight.borrow().keys().copied().collect();
        for c in inflight {
            if self.nested_enabled(Ev::Complete(c)) {
                out.push(Ev::Complete(c));
            }
        }
        out
    }

    pub fn take_point_enabled(&self) -> (Vec<Vec<Ev>>, Vec<Ev>) {
        (std::mem::take(&mut *self.point_enabled.borrow_mut()), std::mem::take(&mut *self.after_plan_enabled.borrow_mut()))
    }

    fn add_edge(&self, token: usize) {
        let mut e = self.edges.borrow_mut();
        if !e.contains(&token) {
            e.push(token);
        }
    }

    pub fn n_clients(&self) -> usize {
        self.clients.borrow().len()
    }

    pub fn client_listener(&self, c: usize) -> usize {
        self.clients.borrow()[c].listener
    }

    pub fn client_eof(&self, c: usize) -> bool {
        self.clients.borrow()[c].eof
    }

    pub fn client_reset(&self, c: usize) -> bool {
        self.clients.borrow()[c].reset
    }

    pub fn client_is_tcp(&self, c: usize) -> bool {
        matches!(self.clients.borrow()[c].sock, ClientSock::Tcp(_))
    }

    /// Probes every client socket for EOF (server side closed); with `wait_ms` > 0 waits that
    /// long for connection `only`.
    pub fn probe_clients(&self, only: Option<usize>, wait_ms: i32) {
        let mut newly = vec![];
        {
            let mut cl = self.clients.borrow_mut();
            for (i, c) in cl.iter_mut().enumerate() {
                if c.eof || only.map_or(false, |o| o != i) {
                    continue;
                }
                if wait_ms > 0 {
                    let mut p = libc::pollfd { fd: c.sock.fd(), events: libc::POLLIN | libc::POLLRDHUP, revents: 0 };
                    unsafe { libc::poll(&mut p, 1, wait_ms) };
                }
                if client_sees_eof(c.sock.fd()) {
                    c.eof = true;
                    newly.push(i);
                }
            }
        }
        for i in newly {
            self.rec(Rec::ClientEof { conn: i });
        }
    }

    pub fn inflight(&self) -> Vec<usize> {
        self.inflight.borrow().keys().copied().collect()
    }

    pub fn mode(&self, slot: usize, svc: usize) -> Mode {
        self.modes.borrow().get(&(slot, svc)).copied().unwrap_or(Mode::Ready)
    }

    pub fn instances(&self) -> Vec<((usize, usize), usize)> {
        self.instances.borrow().iter().map(|(k, v)| (*k, *v)).collect()
    }

    /// The tokens the next `mio::Poll::poll` of the accept loop would return, in order: read from
    /// the real epoll instance (a zero-timeout `epoll_wait`), then put back by re-arming each
    /// consumed edge-triggered registration with `EPOLL_CTL_MOD` in the same order.
    pub fn edges(&self) -> Vec<usize> {
        let Some(v) = verif::accept_view() else { return vec![] };
        let epfd = v.epoll_fd;
        let mut evs: [libc::epoll_event; 16] = unsafe { std::mem::zeroed() };
        let n = unsafe { libc::epoll_wait(epfd, evs.as_mut_ptr(), 16, 0) };
        if n <= 0 {
            return vec![];
        }
        let regs = epoll_registrations(epfd);
        let mut out = vec![];
        for e in &evs[..n as usize] {
            let data = e.u64;
            out.push(data as usize);
            // (several registrations may carry the same data - a defect, but one the explorer must
            // survive: every readable one of them is re-armed)
            let same: Vec<(RawFd, u32)> = regs.iter().filter(|(_, _, d)| *d == data).map(|(fd, m, _)| (*fd, *m)).collect();
            if !same.is_empty() {
                for (fd, mask) in &same {
                    if same.len() == 1 || fd_readable(*fd, 0) {
                        let mut ev = libc::epoll_event { events: *mask, u64: data };
                        unsafe { libc::epoll_ctl(epfd, libc::EPOLL_CTL_MOD, *fd, &mut ev) };
                    }
                }
            } else {
                self.rec(Rec::Machinery(format!("pending epoll event with data {data:#x} has no registration in fdinfo")));
            }
        }
        out
    }

    pub fn take_points(&self) -> Vec<Pt> {
        std::mem::take(&mut *self.points.borrow_mut())
    }

    pub fn set_plan(&self, plan: Option<(usize, Vec<Ev>)>) {
        *self.plan.borrow_mut() = plan;
    }

    pub fn plan_pending(&self) -> bool {
        self.plan.borrow().is_some()
    }

    fn worker_flag(&self, slot: usize) -> Arc<Flag> {
        let mut f = self.worker_flags.borrow_mut();
        while f.len() <= slot {
            let fl = Flag::new();
            fl.set(); // a new worker has never run: it must get a first turn
            f.push(fl);
        }
        f[slot].clone()
    }

    pub fn worker_flag_set(&self, slot: usize) -> bool {
        self.worker_flag(slot).get()
    }

    pub fn server_flag_set(&self) -> bool {
        self.server_flag.get()
    }

    // ---- registration / readiness of the accept poll -------------------------------------

    pub fn listener_registered(&self) -> Vec<bool> {
        match verif::accept_view() {
            Some(v) => {
                let reg = registered_fds(v.epoll_fd);
                v.listener_fds.iter().map(|fd| reg.contains(fd)).collect()
            }
            None => vec![],
        }
    }

    pub fn epoll_ready(&self) -> bool {
        match verif::accept_view() {
            Some(v) => fd_readable(v.epoll_fd, 0),
            None => false,
        }
    }

    /// Sanity link between the two probes: the epoll fd is readable iff a token is pending.
    pub fn probes_agree(&self) -> bool {
        self.epoll_ready() == !self.edges().is_empty()
    }

    pub fn accept_timer_expired(&self) -> bool {
        let Some(v) = verif::accept_view() else { return false };
        let Some(t) = v.timeout else { return false };
        let Some(last) = self.last_accept_turn.get() else { return false };
        tokio::time::Instant::now().duration_since(last) >= t
    }

    // ---- events that may also run nested ---------------------------------------------------

    pub fn accept_turn(&self) {
        if !verif::accept_present() || verif::accept_exited() {
            return;
        }
        let before_reg = self.listener_registered();
        let mut before_view = None;
        if let Some(v) = verif::accept_view() {
            *self.listener_fds.borrow_mut() = v.listener_fds.clone();
            self.rec(Rec::AcceptQueueBefore(v.queue.clone()));
            before_view = Some(v);
        }
        let log_len = self.log.borrow().len();
        self.turn_pushed.borrow_mut().clear();
        self.in_accept_step.set(true);
        let r = mcutil::quiet_catch(|| verif::accept_step());
        self.in_accept_step.set(false);
        self.last_accept_turn.set(Some(tokio::time::Instant::now()));
        if r.is_ok() {
            if let Some(b) = &before_view {
                let waker_seen = self.log.borrow()[log_len..].iter().any(|(_, _, r)| matches!(r, Rec::AcceptTokens(t) if t.contains(&usize::MAX)));
                let mut all = b.queue.clone();
                all.extend(self.turn_pushed.borrow().iter().cloned());
                let processed: Vec<String> = if !waker_seen {
                    vec![]
                } else if verif::accept_exited() {
                    // `Stop` ends the loop at once; what was queued behind it is never looked at
                    let upto = all.iter().position(|c| c == "Stop").map_or(all.len(), |p| p + 1);
                    all[..upto].to_vec()
                } else {
                    let left = verif::accept_view().map_or(0, |v| v.queue.len());
                    all[..all.len().saturating_sub(left)].to_vec()
                };
                self.rec(Rec::AcceptProcessed(processed));
            }
        }
        match r {
            Ok(()) => {
                if verif::accept_exited() {
                    self.rec(Rec::AcceptExited);
                } else {
                    if let Some(v) = verif::accept_view() {
                        self.rec(Rec::AcceptState { avail: v.avail_words[0], handles: v.handles.clone(), next: v.next, paused: v.paused });
                    }
                    // listeners (re-)registered during this turn with a non-empty backlog fire an edge
                    let after = self.listener_registered();
                    // Which listeners were registered anew during this turn? Either they were not
                    // registered before, or the turn processed Pause and then Resume. (This shadow is
                    // only used for the state key and is validated against the tokens the real poll
                    // returns on the next turn.)
                    let mut rereg = vec![false; after.len()];
                    if let Some(b) = &before_view {
                        let waker_seen = self.log.borrow()[log_len..].iter().any(|(_, _, r)| matches!(r, Rec::AcceptTokens(t) if t.contains(&usize::MAX)));
                        let mut reg = before_reg.clone();
                        let mut paused = b.paused;
                        let mut backing_off: Vec<bool> = b.socket_deadlines.iter().map(|d| d.is_some()).collect();
                        if waker_seen {
                            for cmd in &b.queue {
                                match cmd.as_str() {
                                    "Pause" if !paused => {
                                        paused = true;
                                        for l in 0..reg.len() {
                                            if !backing_off[l] {
                                                reg[l] = false;
                                            }
                                            backing_off[l] = false;
                                        }
                                    }
                                    "Resume" if paused => {
                                        paused = false;
                                        for l in 0..reg.len() {
                                            if !reg[l] {
                                                reg[l] = true;
                                                rereg[l] = true;
                                            }
                                        }
                                    }
                                    _ => {}
                                }
                            }
                        }
                    }
                    if let Some(v) = verif::accept_view() {
                        for (i, fd) in v.listener_fds.iter().enumerate() {
                            let newly = before_reg.get(i) == Some(&false) || rereg.get(i) == Some(&true);
                            if after.get(i) == Some(&true) && newly && fd_readable(*fd, 0) {
                                self.add_edge(i);
                            }
                        }
                    }
                }
            }
            Err(p) => {
                self.accept_dead.set(true);
                self.rec(Rec::AcceptPanic(mcutil::panic_message(&*p)));
            }
        }
    }

    pub fn worker_turn(&self, slot: usize) {
        let Some(mut ls) = verif::take_worker_local(slot) else { return };
        let flag = self.worker_flag(slot);
        let waker = Waker::from(flag.clone());
        let mut cx = Context::from_waker(&waker);
        let prev = self.current_turn_slot.replace(Some(slot));
        let mut n = 0;
        loop {
            flag.clear();
            let r = mcutil::quiet_catch(|| Pin::new(&mut ls).poll(&mut cx));
            match r {
                Ok(Poll::Ready(())) => break,
                Ok(Poll::Pending) => {}
                Err(p) => {
                    self.rec(Rec::Machinery(format!("LocalSet poll panicked: {}", mcutil::panic_message(&*p))));
                    break;
                }
            }
            if !flag.get() {
                break;
            }
            n += 1;
            if n > 200 {
                self.rec(Rec::Machinery("worker turn does not quiesce".into()));
                break;
            }
        }
        self.current_turn_slot.set(prev);
        verif::put_worker_local(slot, ls);
        if verif::worker_view(slot).is_none() && self.worker_finished.borrow_mut().insert(slot) {
            self.rec(Rec::WorkerGone { slot });
            if self.dying.borrow().contains(&slot) {
                self.server_inbox.borrow_mut().push(format!("Fault({})", verif::worker_idx(slot)));
            }
        }
    }

    pub fn server_turn(&self) {
        let Some(mut srv) = self.server.borrow_mut().take() else { return };
        let waker = Waker::from(self.server_flag.clone());
        let mut cx = Context::from_waker(&waker);
        let mut n = 0;
        let mut done = None;
        loop {
            self.server_flag.clear();
            match mcutil::quiet_catch(|| srv.as_mut().poll(&mut cx)) {
                Ok(Poll::Ready(r)) => {
                    done = Some(r.is_ok());
                    break;
                }
                Ok(Poll::Pending) => {}
                Err(p) => {
                    self.rec(Rec::ServerPanic(mcutil::panic_message(&*p)));
                    done = Some(false);
                    break;
                }
            }
            if !self.server_flag.get() {
                break;
            }
            n += 1;
            if n > 200 {
                self.rec(Rec::Machinery("server turn does not quiesce".into()));
                break;
            }
        }
        self.building_slot.set(None);
        match done {
            Some(ok) => {
                self.server_done.set(Some(ok));
                self.rec(Rec::ServerDone { ok });
                drop(srv);
            }
            None => *self.server.borrow_mut() = Some(srv),
        }
        // the server task takes everything off its channel in one turn unless it is in the middle
        // of a stop (then it waits there and what is queued behind stays queued)
        if !self.stop_seen.get() || self.server_done.get().is_some() {
            self.server_inbox.borrow_mut().clear();
        }
        // new worker slots created by this turn get a flag (set: they need a first turn)
        for s in 0..verif::worker_slots() {
            self.worker_flag(s);
        }
    }

    pub fn complete(&self, conn: usize) {
        self.finish(conn, false)
    }

    pub fn finish(&self, conn: usize, panic: bool) {
        let tx = self.inflight.borrow_mut().remove(&conn);
        if let Some(tx) = tx {
            let _ = tx.send(panic);
        }
        // the worker that serves it runs
        let slot = self.log.borrow().iter().rev().find_map(|(_, _, r)| match r {
            Rec::Call { conn: Some(c), slot, .. } if *c == conn => Some(*slot),
            _ => None,
        });
        if let Some(slot) = slot {
            self.worker_turn(slot);
        }
    }

    fn nested_enabled(&self, ev: Ev) -> bool {
        match ev {
            Ev::AcceptTurn => verif::accept_present() && !verif::accept_exited() && (self.epoll_ready() || self.accept_timer_expired()),
            Ev::WorkerTurn(s) => s < verif::worker_slots() && verif::worker_local_present(s) && self.worker_flag_set(s),
            Ev::ServerTurn => self.server.borrow().is_some() && self.server_flag_set(),
            Ev::Complete(c) => {
                let slot = self.log.borrow().iter().rev().find_map(|(_, _, r)| match r {
                    Rec::Call { conn: Some(x), slot, .. } if *x == c => Some(*slot),
                    _ => None,
                });
                self.inflight.borrow().contains_key(&c) && slot.map_or(false, |s| verif::worker_local_present(s))
            }
            _ => false,
        }
    }

    fn apply_nested(&self, ev: Ev) {
        // a nested event must be enabled at this very moment, otherwise the schedule is not real
        if !self.nested_enabled(ev) {
            self.nested_invalid.set(true);
            return;
        }
        match ev {
            Ev::AcceptTurn => self.accept_turn(),
            Ev::WorkerTurn(s) => self.worker_turn(s),
            Ev::ServerTurn => self.server_turn(),
            Ev::Complete(c) => self.complete(c),
            other => self.rec(Rec::Machinery(format!("event {:?} cannot be nested", other))),
        }
    }

    pub fn poll_cmds(&self) {
        let waker = Waker::from(Flag::new());
        let mut cx = Context::from_waker(&waker);
        let mut done_now = vec![];
        for (i, c) in self.cmds.borrow_mut().iter_mut().enumerate() {
            if c.done || c.dropped {
                continue;
            }
            if let Some(f) = c.fut.as_mut() {
                if f.as_mut().poll(&mut cx).is_ready() {
                    c.done = true;
                    c.fut = None;
                    done_now.push(i);
                }
            }
        }
        for i in done_now {
            self.rec(Rec::CmdDone { idx: i });
        }
    }
}

// ---------------------------------------------------------------------------------------
// Sys: owns the runtime; one per execution
// ---------------------------------------------------------------------------------------

pub struct Sys {
    pub w: Rc<World>,
    rt: Option<tokio::runtime::Runtime>,
    uds_paths: Vec<std::path::PathBuf>,
}

impl Sys {
    pub fn new(cfg: &Config) -> Sys {
        let rt = tokio::runtime::Builder::new_current_thread().enable_all().start_paused(true).build().expect("runtime");
        let exec = EXEC_COUNTER.fetch_add(1, Ordering::SeqCst);
        let w = Rc::new(World {
            cfg: cfg.clone(),
            log: RefCell::new(vec![]),
            log_ms: RefCell::new(vec![]),
            step: Cell::new(0),
            in_nested: Cell::new(false),
            modes: RefCell::new(BTreeMap::new()),
            ready_wakers: RefCell::new(BTreeMap::new()),
            inflight: RefCell::new(BTreeMap::new()),
            instances: RefCell::new(BTreeMap::new()),
            building_slot: Cell::new(None),
            current_turn_slot: Cell::new(None),
            clients: RefCell::new(vec![]),
            laddrs: RefCell::new(vec![]),
            listener_fds: RefCell::new(vec![]),
            server: RefCell::new(None),
            server_done: Cell::new(None),
            handle: RefCell::new(None),
            server_flag: Flag::new(),
            worker_flags: RefCell::new(vec![]),
            worker_finished: RefCell::new(BTreeSet::new()),
            torn_down: RefCell::new(BTreeSet::new()),
            cmds: RefCell::new(vec![]),
            points: RefCell::new(vec![]),
            fd_conn: RefCell::new(BTreeMap::new()),
            server_inbox: RefCell::new(vec![]),
            in_accept_step: Cell::new(false),
            unrepresentable_join: Cell::new(false),
            turn_pushed: RefCell::new(vec![]),
            observe_points: Cell::new(false),
            point_enabled: RefCell::new(vec![]),
            after_plan_enabled: RefCell::new(vec![]),
            dying: RefCell::new(BTreeSet::new()),
            tearing_down: Cell::new(false),
            plan: RefCell::new(None),
            edges: RefCell::new(Vec::new()),
            accept_dead: Cell::new(false),
            last_accept_turn: Cell::new(None),
            start: Cell::new(None),
            accept_errors_consumed: Cell::new(0),
            nested_invalid: Cell::new(false),
            stop_seen: Cell::new(false),
        });
        WORLD.with(|g| *g.borrow_mut() = Some(w.clone()));
        let mut sys = Sys { w: w.clone(), rt: Some(rt), uds_paths: vec![] };
        let guard = sys.rt.as_ref().unwrap().enter();
        verif::set_in_thread(true);
        verif::set_observer(Some(Rc::new(Obs(w.clone()))));
        w.start.set(Some(tokio::time::Instant::now()));

        let mut builder = Server::build().workers(cfg.workers).max_concurrent_connections(cfg.limit).shutdown_timeout(cfg.shutdown_timeout_s).disable_signals();
        for (i, kind) in cfg.listeners.iter().enumerate() {
            let i_svc = cfg.svc_of(i);
            match kind {
                LKind::TcpBindSecond => {} // bound together with the listener before it
                LKind::Tcp if cfg.listeners.get(i + 1) == Some(&LKind::TcpBindSecond) => {
                    // one bind() call with two addresses (ports picked by binding and releasing them)
                    let ip = format!("127.89.{}.{}:0", std::process::id() % 250 + 1, exec % 250 + 1);
                    // both reservations are held until both ports are known, so they differ
                    let (a1, a2) = {
                        let r1 = std::net::TcpListener::bind(&ip).expect("bind");
                        let r2 = std::net::TcpListener::bind(&ip).expect("bind");
                        (r1.local_addr().unwrap(), r2.local_addr().unwrap())
                    };
                    w.laddrs.borrow_mut().push(LAddr::Tcp(a1));
                    w.laddrs.borrow_mut().push(LAddr::Tcp(a2));
                    builder = builder.bind(format!("svc{i_svc}"), &[a1, a2][..], move || fn_factory(move || create_service(i_svc))).expect("bind two addresses");
                }
                LKind::Tcp => {
                    // a loopback address of our own: other processes on this machine that connect to
                    // 127.0.0.1:<recycled ephemeral port> cannot reach this listener by accident
                    let ip = format!("127.89.{}.{}:0", std::process::id() % 250 + 1, exec % 250 + 1);
                    let lst = std::net::TcpListener::bind(&ip).or_else(|_| std::net::TcpListener::bind("127.0.0.1:0")).expect("bind");
                    w.laddrs.borrow_mut().push(LAddr::Tcp(lst.local_addr().unwrap()));
                    builder = builder
                        .listen(format!("svc{i_svc}"), lst, move || fn_factory(move || create_service(i_svc)))
                        .expect("listen");
                }
                LKind::Uds => {
                    let path = std::path::PathBuf::from(format!("/tmp/srvmc-{}-{}-{}.sock", std::process::id(), exec, i));
                    let _ = std::fs::remove_file(&path);
                    let lst = std::os::unix::net::UnixListener::bind(&path).expect("bind uds");
                    sys.uds_paths.push(path.clone());
                    w.laddrs.borrow_mut().push(LAddr::Uds(path));
                    builder = builder
                        .listen_uds(format!("svc{i_svc}"), lst, move || fn_factory(move || create_service(i_svc)))
                        .expect("listen_uds");
                }
            }
        }
        let server = builder.run();
        *w.handle.borrow_mut() = Some(server.handle());
        *w.server.borrow_mut() = Some(Box::pin(server));
        // first poll: starts the accept loop and the workers (all intercepted onto this thread)
        w.server_flag.set();
        w.server_turn();
        for s in 0..verif::worker_slots() {
            w.worker_flag(s);
        }
        if let Some(v) = verif::accept_view() {
            *w.listener_fds.borrow_mut() = v.listener_fds.clone();
        }
        // the initial registration of a listener fires no edge (nothing is waiting yet)
        w.last_accept_turn.set(Some(tokio::time::Instant::now()));
        drop(guard);
        sys
    }

    /// Applies one top-level event, optionally with nested events at a preemption point.
    pub fn apply(&mut self, ev: Ev, nested: Option<(usize, Vec<Ev>)>) {
        let _guard = self.rt.as_ref().unwrap().enter();
        let w = self.w.clone();
        w.step.set(w.step.get() + 1);
        w.points.borrow_mut().clear();
        w.point_enabled.borrow_mut().clear();
        w.after_plan_enabled.borrow_mut().clear();
        w.set_plan(nested);
        match ev {
            Ev::Connect(l) => self.connect(l),
            Ev::Complete(c) => w.complete(c),
            Ev::Fail(c) => w.finish(c, true),
            Ev::ClientReset(c) => {
                let mut cl = w.clients.borrow_mut();
                if let Some(client) = cl.get_mut(c) {
                    // closing with SO_LINGER 0 (set at connect) sends RST; the descriptor number is
                    // kept valid by putting /dev/null in its place
                    let fd = match &client.sock {
                        ClientSock::Tcp(s) => s.as_raw_fd(),
                        ClientSock::Uds(s) => s.as_raw_fd(),
                    };
                    let null = unsafe { libc::open(b"/dev/null\0".as_ptr() as *const libc::c_char, libc::O_RDONLY) };
                    unsafe {
                        libc::dup2(null, fd);
                        libc::close(null);
                    }
                    client.reset = true;
                    client.eof = true;
                }
                drop(cl);
                w.rec(Rec::ClientReset { conn: c });
            }
            Ev::Pause | Ev::Resume | Ev::Stop(_) => {
                let h = w.handle.borrow().clone().unwrap();
                let fut: Pin<Box<dyn Future<Output = ()>>> = match ev {
                    Ev::Pause => Box::pin(h.pause()),
                    Ev::Resume => Box::pin(h.resume()),
                    Ev::Stop(g) => Box::pin(h.stop(g)),
                    _ => unreachable!(),
                };
                w.server_inbox.borrow_mut().push(format!("{:?}", ev));
                w.rec(Rec::CmdSent(ev));
                w.cmds.borrow_mut().push(CmdFut { kind: ev, fut: Some(fut), done: false, dropped: false });
            }
            Ev::Signal(n) => {
                let h = w.handle.borrow().clone().unwrap();
                h.verif_deliver_signal(n);
                // the hook delivers the signal as the command it maps to, through the same channel
                w.server_inbox.borrow_mut().push(format!("Signal({n})"));
                w.rec(Rec::SignalSent(n));
            }
            Ev::DropStop(i) => {
                let mut cmds = w.cmds.borrow_mut();
                let mut k = 0;
                for c in cmds.iter_mut() {
                    if matches!(c.kind, Ev::Stop(_)) {
                        if k == i {
                            c.fut = None;
                            c.dropped = true;
                        }
                        k += 1;
                    }
                }
            }
            Ev::Advance(ms) => {
                let rt = self.rt.as_ref().unwrap();
                rt.block_on(tokio::time::advance(Duration::from_millis(ms)));
            }
            Ev::Inject(l, kind) => {
                if let Some(v) = verif::accept_view() {
                    let fd = v.listener_fds[l];
                    let (k, os) = match kind {
                        ErrKind::Emfile => (io::ErrorKind::Other, Some(libc::EMFILE)),
                        ErrKind::Enfile => (io::ErrorKind::Other, Some(libc::ENFILE)),
                        ErrKind::Aborted => (io::ErrorKind::ConnectionAborted, Some(libc::ECONNABORTED)),
                        ErrKind::Reset => (io::ErrorKind::ConnectionReset, Some(libc::ECONNRESET)),
                        ErrKind::Refused => (io::ErrorKind::ConnectionRefused, Some(libc::ECONNREFUSED)),
                        ErrKind::Interrupted => (io::ErrorKind::Interrupted, Some(libc::EINTR)),
                    };
                    verif::inject_accept_error(fd, k, os);
                    w.rec(Rec::Injected { listener: l, kind });
                }
            }
            Ev::SetReady { slot, svc, mode } => {
                w.modes.borrow_mut().insert((slot, svc), mode);
                let wk = w.ready_wakers.borrow_mut().remove(&(slot, svc));
                if let Some(wk) = wk {
                    wk.wake();
                } else if !w.cfg.silent_modes {
                    // the worker only looks at readiness when it is polled
                    w.worker_flag(slot).set();
                }
            }
            Ev::Teardown(slot) => {
                if let Some(ls) = verif::take_worker_local(slot) {
                    let prev = w.current_turn_slot.replace(Some(slot));
                    let _ = mcutil::quiet_catch(|| drop(ls));
                    w.current_turn_slot.set(prev);
                    w.torn_down.borrow_mut().insert(slot);
                }
            }
            Ev::AcceptTurn => w.accept_turn(),
            Ev::WorkerTurn(s) => w.worker_turn(s),
            Ev::ServerTurn => w.server_turn(),
        }
        if w.plan_pending() {
            // the planned preemption point was not reached: the caller discards this execution
        }
        w.poll_cmds();
        w.probe_clients(None, 0);
        // Normalise the kernel's ready list at every event boundary: an entry whose fd has been
        // drained in the meantime stays on the list (invisible from user space) and would keep
        // its early position if the fd became ready again. Reading the list drops such entries;
        // the live ones are put back in the same order. Every order of pending events remains
        // reachable through the order of the events that cause them.
        let _ = w.edges();
    }

    fn connect(&mut self, l: usize) {
        let w = self.w.clone();
        let id = w.clients.borrow().len();
        let res: io::Result<(ClientSock, u16)> = match &w.laddrs.borrow()[l] {
            LAddr::Tcp(addr) => tcp_connect_from(id, addr).and_then(|s| {
                let port = s.local_addr()?.port();
                // RST on close: no TIME_WAIT pile-up over hundreds of thousands of executions
                let lg = libc::linger { l_onoff: 1, l_linger: 0 };
                unsafe { libc::setsockopt(s.as_raw_fd(), libc::SOL_SOCKET, libc::SO_LINGER, &lg as *const _ as *const libc::c_void, std::mem::size_of::<libc::linger>() as u32) };
                Ok((ClientSock::Tcp(s), port))
            }),
            LAddr::Uds(path) => std::os::unix::net::UnixStream::connect(path).map(|s| (ClientSock::Uds(s), 0)),
        };
        match res {
            Ok((mut sock, port)) => {
                let idb = (id as u16).to_be_bytes();
                let _ = match &mut sock {
                    ClientSock::Tcp(s) => s.write_all(&idb),
                    ClientSock::Uds(s) => s.write_all(&idb),
                };
                w.clients.borrow_mut().push(Client { listener: l, sock, port, eof: false, reset: false });
                w.rec(Rec::Connected { conn: id, listener: l });
                // the connection is in the listener's queue when connect returns (loopback / UDS);
                // make sure the kernel shows it before the next event is chosen
                if let Some(v) = verif::accept_view() {
                    let fd = v.listener_fds[l];
                    if !fd_readable(fd, 2000) {
                        w.rec(Rec::Machinery("connection not visible on the listener within 2 s".into()));
                    }
                    if w.listener_registered().get(l) == Some(&true) {
                        w.add_edge(l);
                    }
                }
            }
            Err(e) => w.rec(Rec::ConnectFailed { listener: l, err: format!("{:?}", e.kind()) }),
        }
    }

    pub fn enter(&self) -> tokio::runtime::EnterGuard<'_> {
        self.rt.as_ref().unwrap().enter()
    }

    pub fn note_wake_edge(&self) {
        self.w.add_edge(usize::MAX);
    }
}

impl Drop for Sys {
    fn drop(&mut self) {
        let rt = self.rt.take().unwrap();
        {
            let _g = rt.enter();
            let w = self.w.clone();
            w.tearing_down.set(true);
            let _ = mcutil::quiet_catch(|| {
                w.cmds.borrow_mut().clear();
                w.inflight.borrow_mut().clear();
                drop(w.server.borrow_mut().take());
                w.handle.borrow_mut().take();
                verif::set_observer(None);
                verif::set_in_thread(false);
                w.clients.borrow_mut().clear();
                w.ready_wakers.borrow_mut().clear();
            });
            WORLD.with(|g| g.borrow_mut().take());
        }
        drop(rt);
        for p in &self.uds_paths {
            let _ = std::fs::remove_file(p);
        }
    }
}

