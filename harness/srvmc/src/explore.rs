//! Explicit-state breadth-first search over event histories of the real server (DESIGN §4.5,
//! Appendix A). A state is the history that reaches it; successors are produced by replaying
//! the history on a fresh server and applying one more event.

use std::{
    collections::{BTreeMap, HashSet},
    hash::{Hash, Hasher},
    sync::Mutex,
    time::{Duration, Instant},
};

use actix_server::verif::{self, AcceptView, Point, WorkerView};
use mcutil::{json, Value};

use crate::sys::{Config, ErrKind, Ev, LKind, Mode, Pt, Rec, Sys};

pub type Step = (Ev, Option<(usize, Vec<Ev>)>);

#[derive(Clone, Debug)]
pub struct Bounds {
    pub connects: usize,
    pub connect_listeners: Vec<usize>,
    pub completes: bool,
    pub cmds: Vec<Ev>,
    pub max_cmds: usize,
    pub advances: Vec<u64>,
    pub max_advances: usize,
    pub injects: Vec<(usize, ErrKind)>,
    pub max_injects: usize,
    pub modes: Vec<Mode>,
    pub max_mode_changes: usize,
    /// commands may also be issued after the Server future has resolved (late `stop` calls)
    pub cmds_after_done: bool,
    /// how many TCP clients may reset their connection while it waits (backlog or worker queue)
    pub client_resets: usize,
    pub kills: usize,
    /// how many workers may be killed by a panic inside `Service::call`
    pub call_kills: usize,
    /// how many service futures may panic (Ev::Fail)
    pub conn_panics: usize,
    pub drop_stop: bool,
    /// nested events per top-level event (0 = turns are atomic)
    pub nested: usize,
    /// generic nesting: at every preemption point, every sequence of up to this many internal
    /// events of other actors that is enabled at that moment (0 = only the candidate lists)
    pub nested_generic: usize,
    pub max_states: usize,
    pub max_depth: usize,
}

impl Default for Bounds {
    fn default() -> Self {
        Bounds {
            connects: 3,
            connect_listeners: vec![0],
            completes: true,
            cmds: vec![],
            max_cmds: 0,
            advances: vec![],
            max_advances: 0,
            injects: vec![],
            max_injects: 0,
            modes: vec![],
            max_mode_changes: 0,
            cmds_after_done: false,
            client_resets: 0,
            kills: 0,
            call_kills: 0,
            conn_panics: 0,
            drop_stop: false,
            nested: 0,
            nested_generic: 0,
            max_states: 400_000,
            max_depth: 64,
        }
    }
}

#[derive(Clone, Debug, PartialEq, Eq, Hash)]
pub enum Phase {
    Backlog,
    Queued(usize),
    /// accept loop holds it after a failed send (only visible at nested points)
    Held,
    Serving(usize),
    Done,
    Dropped,
}

#[derive(Clone, Debug)]
pub struct ConnInfo {
    pub listener: usize,
    pub phase: Phase,
    pub eof: bool,
    pub calls: usize,
    /// the client itself has reset the connection
    pub reset: bool,
}

#[derive(Clone, Debug)]
pub struct WorkerSnap {
    pub slot: usize,
    pub idx: usize,
    pub local_present: bool,
    pub view: Option<WorkerView>,
    pub flag: bool,
    pub finished: bool,
    pub torn_down: bool,
}

#[derive(Clone, Debug)]
pub struct Snap {
    pub key: u64,
    pub key_text: String,
    pub enabled: Vec<Ev>,
    pub quiescent: bool,
    pub points: Vec<Pt>,
    pub point_enabled: Vec<Vec<Ev>>,
    pub after_plan_enabled: Vec<Ev>,
    pub unrepresentable_join: bool,
    pub log: Vec<(usize, bool, Rec)>,
    pub log_ms: Vec<u64>,
    pub accept: Option<AcceptView>,
    pub accept_exited: bool,
    pub accept_dead: bool,
    pub registered: Vec<bool>,
    pub epoll_ready: bool,
    pub accept_timer_expired: bool,
    pub workers: Vec<WorkerSnap>,
    pub conns: Vec<ConnInfo>,
    pub server_done: Option<bool>,
    pub server_flag: bool,
    pub cmds: Vec<(Ev, bool, bool)>,
    pub now_ms: u64,
    pub uds_path_exists: Vec<Option<bool>>,
    pub invalid: bool,
    pub machinery: Vec<String>,
    pub steps: usize,
    pub modes: Vec<((usize, usize), Mode)>,
}

impl Snap {
    pub fn avail(&self, idx: usize) -> bool {
        self.accept.as_ref().map_or(false, |a| a.avail_words[idx / 128] & (1u128 << (idx % 128)) != 0)
    }
    pub fn live_worker(&self, idx: usize) -> Option<&WorkerSnap> {
        self.workers.iter().rev().find(|w| w.idx == idx && w.view.is_some())
    }
    pub fn mode(&self, slot: usize, svc: usize) -> Mode {
        self.modes.iter().find(|(k, _)| *k == (slot, svc)).map_or(Mode::Ready, |(_, m)| *m)
    }
    pub fn stop_requested(&self) -> bool {
        self.cmds.iter().any(|(k, _, _)| matches!(k, Ev::Stop(_))) || self.log.iter().any(|(_, _, r)| matches!(r, Rec::AcceptJoin { .. }))
    }
}

#[derive(Default, Clone, Debug)]
pub struct Used {
    pub connects: usize,
    pub cmds: usize,
    pub advances: usize,
    pub injects: usize,
    pub mode_changes: usize,
    pub kills: usize,
    pub call_kills: usize,
    pub conn_panics: usize,
    pub client_resets: usize,
    pub drop_stops: usize,
    pub signals: usize,
}

pub fn used(history: &[Step]) -> Used {
    let mut u = Used::default();
    for (ev, _) in history {
        match ev {
            Ev::Connect(_) => u.connects += 1,
            Ev::Pause | Ev::Resume | Ev::Stop(_) | Ev::Signal(_) => u.cmds += 1,
            Ev::Advance(_) => u.advances += 1,
            Ev::Inject(..) => u.injects += 1,
            Ev::SetReady { mode: Mode::PanicOnce, .. } => u.kills += 1,
            Ev::SetReady { mode: Mode::PanicInCall, .. } => u.call_kills += 1,
            Ev::SetReady { .. } => u.mode_changes += 1,
            Ev::DropStop(_) => u.drop_stops += 1,
            Ev::Fail(_) => u.conn_panics += 1,
            Ev::ClientReset(_) => u.client_resets += 1,
            _ => {}
        }
    }
    u
}

fn conn_infos(sys: &Sys) -> Vec<ConnInfo> {
    let w = &sys.w;
    let n = w.n_clients();
    let mut v: Vec<ConnInfo> = (0..n).map(|c| ConnInfo { listener: w.client_listener(c), phase: Phase::Backlog, eof: w.client_eof(c), calls: 0, reset: w.client_reset(c) }).collect();
    for (_, _, r) in w.log.borrow().iter() {
        match r {
            Rec::Dispatch { conn: Some(c), worker, .. } => v[*c].phase = Phase::Queued(*worker),
            Rec::DispatchFailed { conn: Some(c) } => v[*c].phase = Phase::Held,
            Rec::Call { conn: Some(c), slot, .. } => {
                v[*c].phase = Phase::Serving(*slot);
                v[*c].calls += 1;
            }
            Rec::Done { conn } => v[*conn].phase = Phase::Done,
            Rec::Dropped { conn } => v[*conn].phase = Phase::Dropped,
            _ => {}
        }
    }
    v
}

pub fn enabled(sys: &Sys, b: &Bounds, u: &Used, conns: &[ConnInfo]) -> Vec<Ev> {
    let w = &sys.w;
    let mut v = vec![];
    let server_running = w.server_done.get().is_none();
    if u.connects < b.connects && server_running {
        for l in &b.connect_listeners {
            v.push(Ev::Connect(*l));
        }
    }
    if b.completes {
        for c in w.inflight() {
            if let Phase::Serving(slot) = conns[c].phase {
                if verif::worker_local_present(slot) {
                    v.push(Ev::Complete(c));
                    if u.conn_panics < b.conn_panics {
                        v.push(Ev::Fail(c));
                    }
                }
            }
        }
    }
    if u.client_resets < b.client_resets && server_running {
        for (c, info) in conns.iter().enumerate() {
            if !info.reset && matches!(info.phase, Phase::Queued(_)) && w.client_is_tcp(c) {
                v.push(Ev::ClientReset(c));
            }
        }
    }
    if u.cmds < b.max_cmds && (server_running || b.cmds_after_done) {
        for c in &b.cmds {
            v.push(*c);
        }
    }
    if b.drop_stop && u.drop_stops == 0 {
        let cmds = w.cmds.borrow();
        let mut k = 0;
        for c in cmds.iter() {
            if matches!(c.kind, Ev::Stop(_)) {
                if !c.done && !c.dropped {
                    v.push(Ev::DropStop(k));
                }
                k += 1;
            }
        }
    }
    let accept_view = verif::accept_view();
    let timers_pending = accept_view.as_ref().map_or(false, |a| a.timeout.is_some())
        || (0..verif::worker_slots()).any(|s| verif::worker_view(s).map_or(false, |v| v.state == "shutdown"))
        || (server_running && w.log.borrow().iter().any(|(_, _, r)| matches!(r, Rec::SignalSent(_))));
    if u.advances < b.max_advances && timers_pending {
        for ms in &b.advances {
            v.push(Ev::Advance(*ms));
        }
    }
    if u.injects < b.max_injects && verif::injected_pending() == 0 && accept_view.is_some() {
        for (l, k) in &b.injects {
            v.push(Ev::Inject(*l, *k));
        }
    }
    for slot in 0..verif::worker_slots() {
        let alive = verif::worker_view(slot).is_some();
        if alive {
            for svc in 0..w.cfg.listeners.len() {
                let cur = w.mode(slot, svc);
                if u.mode_changes < b.max_mode_changes {
                    for m in &b.modes {
                        if *m != cur {
                            v.push(Ev::SetReady { slot, svc, mode: *m });
                        }
                    }
                }
                if u.kills < b.kills && cur != Mode::PanicOnce && svc == 0 {
                    v.push(Ev::SetReady { slot, svc, mode: Mode::PanicOnce });
                }
                if u.call_kills < b.call_kills && cur == Mode::Ready && svc == 0 {
                    v.push(Ev::SetReady { slot, svc, mode: Mode::PanicInCall });
                }
            }
        } else if verif::worker_local_present(slot) && !w.torn_down.borrow().contains(&slot) && (b.kills > 0 || b.call_kills > 0) {
            v.push(Ev::Teardown(slot));
        }
    }
    // internal
    if verif::accept_present() && !verif::accept_exited() && (w.epoll_ready() || w.accept_timer_expired()) {
        v.push(Ev::AcceptTurn);
    }
    for slot in 0..verif::worker_slots() {
        if verif::worker_local_present(slot) && w.worker_flag_set(slot) {
            v.push(Ev::WorkerTurn(slot));
        }
    }
    if server_running && w.server_flag_set() {
        v.push(Ev::ServerTurn);
    }
    v
}

fn dur_ms(d: Option<Duration>) -> String {
    match d {
        Some(d) => format!("{}", d.as_millis()),
        None => "-".into(),
    }
}

pub fn snapshot(sys: &Sys, b: &Bounds, history: &[Step]) -> Snap {
    let w = &sys.w;
    let u = used(history);
    let conns = conn_infos(sys);
    let en = enabled(sys, b, &u, &conns);
    let accept = verif::accept_view();
    let registered = w.listener_registered();
    let epoll_ready = w.epoll_ready();
    if verif::accept_present() && !w.probes_agree() {
        w.rec(Rec::Machinery("poll(2) on the epoll fd and the peeked token list disagree".into()));
    }
    let timer_expired = w.accept_timer_expired();
    let now = tokio::time::Instant::now();
    let workers: Vec<WorkerSnap> = (0..verif::worker_slots())
        .map(|slot| WorkerSnap {
            slot,
            idx: verif::worker_idx(slot),
            local_present: verif::worker_local_present(slot),
            view: verif::worker_view(slot),
            flag: w.worker_flag_set(slot),
            finished: w.worker_finished.borrow().contains(&slot),
            torn_down: w.torn_down.borrow().contains(&slot),
        })
        .collect();
    let cmds: Vec<(Ev, bool, bool)> = w.cmds.borrow().iter().map(|c| (c.kind, c.done, c.dropped)).collect();
    let uds_path_exists = w
        .laddrs
        .borrow()
        .iter()
        .map(|a| match a {
            crate::sys::LAddr::Uds(p) => Some(p.exists()),
            _ => None,
        })
        .collect::<Vec<_>>();
    let machinery: Vec<String> = w.log.borrow().iter().filter_map(|(_, _, r)| if let Rec::Machinery(m) = r { Some(m.clone()) } else { None }).collect();

    // ---- canonical key: everything that can influence the future, read from the real objects
    let mut k = String::with_capacity(512);
    use std::fmt::Write;
    match &accept {
        Some(a) => {
            let remaining = a.timeout.map(|t| t.saturating_sub(w.last_accept_turn.get().map_or(Duration::ZERO, |l| now.duration_since(l))));
            let _ = write!(
                k,
                "A[n{} h{:?} c{:?} av{:x}.{:x} p{} t{} sd{:?} q{:?}]",
                a.next,
                a.handles,
                a.counters,
                a.avail_words[0],
                a.avail_words[1] | a.avail_words[2] | a.avail_words[3],
                a.paused as u8,
                dur_ms(remaining),
                a.socket_deadlines.iter().map(|d| dur_ms(*d)).collect::<Vec<_>>(),
                a.queue
            );
        }
        None => {
            let _ = write!(k, "A[gone exited={} dead={}]", verif::accept_exited(), w.accept_dead.get());
        }
    }
    let injected_kinds: Vec<String> = w.log.borrow().iter().filter_map(|(_, _, r)| if let Rec::Injected { listener, kind } = r { Some(format!("{listener}:{:?}", kind)) } else { None }).collect();
    let _ = write!(k, "R{:?}E{}X{:?}P{:?}I{}{:?}Q{:?}", registered, epoll_ready as u8, w.edges(), uds_path_exists, verif::injected_pending(), injected_kinds, w.server_inbox.borrow());
    for ws in &workers {
        let _ = write!(k, "W{}[i{} l{} f{} fin{} td{}", ws.slot, ws.idx, ws.local_present as u8, ws.flag as u8, ws.finished as u8, ws.torn_down as u8);
        if let Some(v) = &ws.view {
            let _ = write!(k, " {} tick{} el{} sv{:?} c{} q{}", v.state, dur_ms(v.shutdown_tick_in), dur_ms(v.shutdown_elapsed.map(|e| e.min(Duration::from_secs(w.cfg.shutdown_timeout_s.saturating_add(1))))), v.services, v.counter_raw, v.queued);
        }
        for svc in 0..w.cfg.listeners.len() {
            let _ = write!(k, " m{:?}", w.mode(ws.slot, svc));
        }
        k.push(']');
    }
    let _ = write!(k, "N{:?}", w.instances());
    for (i, c) in conns.iter().enumerate() {
        let _ = write!(k, "C{}[l{} {:?} e{} k{}{}]", i, c.listener, c.phase, c.eof as u8, c.calls, if c.reset { " reset" } else { "" });
    }
    let signals: Vec<i32> = w.log.borrow().iter().filter_map(|(_, _, r)| if let Rec::SignalSent(n) = r { Some(*n) } else { None }).collect();
    // where the server task is inside its Stop handling: has it joined the accept loop, and how much of
    // the 300 ms it sleeps before a requested system stop is left
    let join_ms: Option<u64> = w.log.borrow().iter().zip(w.log_ms.borrow().iter()).find_map(|((_, _, r), ms)| if matches!(r, Rec::AcceptJoin { .. }) { Some(*ms) } else { None });
    let now_ms = w.start.get().map_or(0, |s| now.duration_since(s).as_millis() as u64);
    let exit_sleep_left = join_ms.map(|j| (j + 300).saturating_sub(now_ms));
    let _ = write!(k, "S[f{} d{:?} j{:?}]M{:?}G{:?}", w.server_flag_set() as u8, w.server_done.get(), exit_sleep_left, cmds, signals);
    let _ = write!(k, "U[{} {} {} {} {} {} {}]", u.connects, u.cmds, u.advances, u.injects, u.mode_changes, u.kills, u.drop_stops);
    let mut h = std::collections::hash_map::DefaultHasher::new();
    k.hash(&mut h);
    let quiescent = !en.iter().any(|e| e.is_internal());
    let (point_enabled, after_plan_enabled) = w.take_point_enabled();
    Snap {
        point_enabled,
        after_plan_enabled,
        unrepresentable_join: w.unrepresentable_join.get(),
        key: h.finish(),
        key_text: k,
        enabled: en,
        quiescent,
        points: w.take_points(),
        log: w.log.borrow().clone(),
        log_ms: w.log_ms.borrow().clone(),
        accept,
        accept_exited: verif::accept_exited(),
        accept_dead: w.accept_dead.get(),
        registered,
        epoll_ready,
        accept_timer_expired: timer_expired,
        workers,
        conns,
        server_done: w.server_done.get(),
        server_flag: w.server_flag_set(),
        cmds,
        now_ms: w.start.get().map_or(0, |s| now.duration_since(s).as_millis() as u64),
        uds_path_exists,
        invalid: w.nested_invalid.get() || w.plan_pending(),
        machinery,
        steps: history.len(),
        modes: (0..verif::worker_slots()).flat_map(|s| (0..w.cfg.listeners.len()).map(move |v| (s, v))).map(|(s, v)| ((s, v), w.mode(s, v))).collect(),
    }
}

/// Replays `history` on a fresh server and returns the observation of the final state.
pub fn run(cfg: &Config, b: &Bounds, history: &[Step]) -> Snap {
    let mut sys = Sys::new(cfg);
    sys.w.observe_points.set(b.nested_generic > 0);
    for (ev, nested) in history {
        sys.apply(*ev, nested.clone());
        if sys.w.nested_invalid.get() || sys.w.plan_pending() {
            break;
        }
    }
    let rt_guard = sys.enter();
    let snap = snapshot(&sys, b, history);
    drop(rt_guard);
    drop(sys);
    snap
}

// ---------------------------------------------------------------------------------------
// nested candidates at a preemption point
// ---------------------------------------------------------------------------------------

/// Event sequences of *other* actors that may run at `point`, from the state before the
/// top-level event (`before`) and the event itself. Invalid ones (not enabled at that moment)
/// are discarded at run time.
pub fn nested_candidates(point: Pt, top: Ev, before: &Snap, max_len: usize) -> Vec<Vec<Ev>> {
    let point = match point {
        Pt::Hook(p) => p,
        Pt::ServiceDrop(_) => {
            // the accept loop dispatches while the dead worker is being taken apart
            return vec![vec![Ev::AcceptTurn]];
        }
    };
    let mut out: Vec<Vec<Ev>> = vec![];
    let slot_of = |idx: usize| before.workers.iter().rev().find(|w| w.idx == idx).map(|w| w.slot);
    let inflight: Vec<usize> = before.conns.iter().enumerate().filter(|(_, c)| matches!(c.phase, Phase::Serving(_))).map(|(i, _)| i).collect();
    let top_is_accept = matches!(top, Ev::AcceptTurn);
    match point {
        Point::AfterSend(idx) => {
            if let Some(slot) = slot_of(idx) {
                out.push(vec![Ev::WorkerTurn(slot)]);
                if max_len >= 2 {
                    // the worker picks the connection up and it finishes before the counter is incremented
                    for c in 0..before.conns.len() + 0 {
                        if matches!(before.conns[c].phase, Phase::Backlog) {
                            out.push(vec![Ev::WorkerTurn(slot), Ev::Complete(c)]);
                        }
                    }
                }
            }
            for c in &inflight {
                out.push(vec![Ev::Complete(*c)]);
            }
            // a graceful stop is handled by the server task and by the worker while the accept thread
            // sits between the send and its bookkeeping (the forced variant would need the accept
            // loop, which is mid-step, to be joined)
            let graceful_stop_pending = !before.log.iter().any(|(_, _, r)| matches!(r, Rec::StopProcessed))
                && (before.cmds.iter().any(|(k, done, _)| *k == Ev::Stop(true) && !*done) || before.log.iter().any(|(_, _, r)| matches!(r, Rec::SignalSent(15))))
                && !before.cmds.iter().any(|(k, _, _)| *k == Ev::Stop(false))
                && !before.log.iter().any(|(_, _, r)| matches!(r, Rec::SignalSent(2) | Rec::SignalSent(3)));
            if max_len >= 3 && graceful_stop_pending {
                if let Some(slot) = slot_of(idx) {
                    out.push(vec![Ev::WorkerTurn(slot), Ev::ServerTurn, Ev::WorkerTurn(slot)]);
                    out.push(vec![Ev::ServerTurn, Ev::WorkerTurn(slot)]);
                }
            }
        }
        Point::AfterStopWake => {
            // the accept loop handles Stop (and exits, closing every worker's connection channel)
            // before the server task has told the workers to stop
            out.push(vec![Ev::AcceptTurn]);
            if max_len >= 2 {
                for w in &before.workers {
                    if w.view.is_some() {
                        out.push(vec![Ev::AcceptTurn, Ev::WorkerTurn(w.slot)]);
                    }
                }
            }
        }
        Point::AfterDec(_) | Point::AfterPush => {
            if !top_is_accept {
                out.push(vec![Ev::AcceptTurn]);
                if !matches!(top, Ev::ServerTurn) {
                    out.push(vec![Ev::ServerTurn]);
                }
                // another worker's connection finishes in between
                for c in &inflight {
                    if Ev::Complete(*c) != top {
                        if let (Phase::Serving(s1), Ev::Complete(t)) = (&before.conns[*c].phase, top) {
                            if let Phase::Serving(s2) = &before.conns[t].phase {
                                if s1 != s2 {
                                    out.push(vec![Ev::Complete(*c)]);
                                }
                            }
                        }
                    }
                }
            } else {
                // accept thread is the one waking (it never does today) - nothing
            }
        }
        Point::AfterWake => {
            // the accept loop reacts to the wake-up before the waker has gone on (for a worker
            // that is unwinding: before it has been taken apart)
            if !top_is_accept {
                out.push(vec![Ev::AcceptTurn]);
            }
        }
    }
    out
}

// ---------------------------------------------------------------------------------------
// BFS
// ---------------------------------------------------------------------------------------

pub struct Found {
    pub signature: String,
    pub message: String,
    pub history: Vec<Step>,
    pub key_text: String,
}

#[derive(Default)]
pub struct Stats {
    pub states: u64,
    pub transitions: u64,
    pub executions: u64,
    pub nested_transitions: u64,
    pub invalid_nested: u64,
    /// discarded because the server task reached its blocking join of the accept thread while
    /// that thread was mid-step (not representable on one thread)
    pub unrepresentable_joins: u64,
    pub quiescent_states: u64,
    pub max_depth: usize,
    pub capped: bool,
    pub armed: BTreeMap<String, u64>,
    pub replay_checks: u64,
    pub shortest: Option<Vec<Step>>,
    pub longest: Option<Vec<Step>>,
    pub distinct_dispatch_logs: u64,
    pub key_checks: u64,
    pub key_warnings: Vec<String>,
}

pub trait Spec: Sync {
    fn config(&self) -> Config;
    fn bounds(&self) -> Bounds;
    /// Safety and (at quiescent states) liveness monitors. Returns (signature, message) pairs.
    fn check(&self, snap: &Snap, armed: &mut BTreeMap<String, u64>) -> Vec<(String, String)>;
    fn name(&self) -> String;
}

pub fn step_json(s: &Step) -> Value {
    match &s.1 {
        None => json!(format!("{:?}", s.0)),
        Some((at, evs)) => json!({"event": format!("{:?}", s.0), "at_point": at, "nested": evs.iter().map(|e| format!("{:?}", e)).collect::<Vec<_>>()}),
    }
}

pub fn history_json(h: &[Step]) -> Value {
    Value::Array(h.iter().map(step_json).collect())
}

struct Node {
    history: Vec<Step>,
    enabled: Vec<Ev>,
    snap_for_nested: Option<Box<Snap>>,
}

struct Outcome {
    snap: Snap,
    history: Vec<Step>,
    nested: bool,
}

/// Key self-test (DESIGN §14): two histories with the same key must have the same successors.
/// Returns a description of the first difference.
fn key_differential(cfg: &Config, b: &Bounds, h1: &[Step], h2: &[Step], enabled: &[Ev]) -> Option<String> {
    for ev in enabled {
        let mut a = h1.to_vec();
        a.push((*ev, None));
        let mut c = h2.to_vec();
        c.push((*ev, None));
        let (sa, sc) = (run(cfg, b, &a), run(cfg, b, &c));
        // budgets used are part of the key and may legitimately differ only if the histories differ in them
        if sa.key != sc.key {
            return Some(format!(
                "same key, different successor under {:?}:\n  history A {}\n  history B {}\n  successor A {}\n  successor B {}",
                ev,
                history_json(h1),
                history_json(h2),
                sa.key_text,
                sc.key_text
            ));
        }
    }
    None
}

pub fn bfs(spec: &dyn Spec, threads: usize, seed: u64, wall_cap: Duration) -> (Stats, Vec<Found>, Vec<String>) {
    bfs_opt(spec, threads, seed, wall_cap, 0)
}

pub fn bfs_opt(spec: &dyn Spec, threads: usize, seed: u64, wall_cap: Duration, keycheck_every: u64) -> (Stats, Vec<Found>, Vec<String>) {
    let cfg = spec.config();
    let b = spec.bounds();
    let start = Instant::now();
    let mut stats = Stats::default();
    let mut found: Vec<Found> = vec![];
    let mut found_sigs: HashSet<String> = HashSet::new();
    let mut machinery: Vec<String> = vec![];
    let mut seen: HashSet<u64> = HashSet::new();
    let mut first_history: std::collections::HashMap<u64, Vec<Step>> = std::collections::HashMap::new();
    let mut duplicates = 0u64;
    let mut dispatch_logs: HashSet<u64> = HashSet::new();

    let mut dump = std::env::var("VERIF_DUMP_KEYS").ok().and_then(|p| std::fs::OpenOptions::new().create(true).append(true).open(p).ok());
    let root = run(&cfg, &b, &[]);
    stats.executions += 1;
    seen.insert(root.key);
    stats.states = 1;
    for (sig, msg) in spec.check(&root, &mut stats.armed) {
        if found_sigs.insert(sig.clone()) {
            found.push(Found { signature: sig, message: msg, history: vec![], key_text: root.key_text.clone() });
        }
    }
    machinery.extend(root.machinery.iter().cloned());
    let mut frontier = vec![Node { history: vec![], enabled: root.enabled.clone(), snap_for_nested: if b.nested > 0 || b.nested_generic > 0 { Some(Box::new(root)) } else { None } }];
    let mut depth = 0;
    while !frontier.is_empty() && machinery.is_empty() {
        depth += 1;
        if depth > b.max_depth {
            stats.capped = true;
            break;
        }
        // work items: (node index, event)
        let items: Vec<(usize, Ev)> = frontier.iter().enumerate().flat_map(|(i, n)| n.enabled.iter().map(move |e| (i, *e))).collect();
        let frontier_ref = &frontier;
        let armed_mx: Mutex<BTreeMap<String, u64>> = Mutex::new(BTreeMap::new());
        let results: Vec<Vec<(Outcome, Vec<(String, String)>)>> = mcutil::par_map(threads, &items, |_, (ni, ev)| {
            let node = &frontier_ref[*ni];
            let mut outs = vec![];
            let mut armed = BTreeMap::new();
            let mut h = node.history.clone();
            h.push((*ev, None));
            let snap = run(&cfg, &b, &h);
            let points = snap.points.clone();
            let vios = spec.check(&snap, &mut armed);
            outs.push((Outcome { snap, history: h.clone(), nested: false }, vios));
            let mut tried: Vec<(usize, Vec<Ev>)> = vec![];
            if b.nested > 0 {
                if let Some(before) = &node.snap_for_nested {
                    for (ordinal, p) in points.iter().enumerate() {
                        for seq in nested_candidates(*p, *ev, before, b.nested) {
                            let mut hn = node.history.clone();
                            hn.push((*ev, Some((ordinal, seq.clone()))));
                            tried.push((ordinal, seq));
                            let s = run(&cfg, &b, &hn);
                            let v = if s.invalid { vec![] } else { spec.check(&s, &mut armed) };
                            outs.push((Outcome { snap: s, history: hn, nested: true }, v));
                        }
                    }
                }
            }
            if b.nested_generic > 0 {
                // every sequence of enabled internal events of other actors, depth first
                let point_enabled = outs[0].0.snap.point_enabled.clone();
                for (ordinal, en) in point_enabled.iter().enumerate() {
                    let mut stack: Vec<Vec<Ev>> = en.iter().rev().map(|e| vec![*e]).collect();
                    while let Some(seq) = stack.pop() {
                        let mut hn = node.history.clone();
                        hn.push((*ev, Some((ordinal, seq.clone()))));
                        let s = run(&cfg, &b, &hn);
                        if !s.invalid && seq.len() < b.nested_generic {
                            for e2 in s.after_plan_enabled.iter().rev() {
                                let mut s2 = seq.clone();
                                s2.push(*e2);
                                stack.push(s2);
                            }
                        }
                        if tried.contains(&(ordinal, seq.clone())) {
                            continue; // already an outcome through the candidate lists
                        }
                        let v = if s.invalid { vec![] } else { spec.check(&s, &mut armed) };
                        outs.push((Outcome { snap: s, history: hn, nested: true }, v));
                    }
                }
            }
            let mut g = armed_mx.lock().unwrap();
            for (k, v) in armed {
                *g.entry(k).or_insert(0) += v;
            }
            outs
        });
        for (k, v) in armed_mx.into_inner().unwrap() {
            *stats.armed.entry(k).or_insert(0) += v;
        }
        let mut next: Vec<Node> = vec![];
        for outs in results {
            for (o, vios) in outs {
                stats.executions += 1;
                if o.snap.invalid {
                    stats.invalid_nested += 1;
                    if o.snap.unrepresentable_join {
                        stats.unrepresentable_joins += 1;
                    }
                    continue;
                }
                stats.transitions += 1;
                if o.nested {
                    stats.nested_transitions += 1;
                }
                for m in &o.snap.machinery {
                    if machinery.len() < 5 {
                        machinery.push(format!("{m} (history {})", history_json(&o.history)));
                    }
                }
                for (sig, msg) in vios {
                    if found_sigs.insert(sig.clone()) {
                        found.push(Found { signature: sig, message: msg, history: o.history.clone(), key_text: o.snap.key_text.clone() });
                    }
                }
                if keycheck_every > 0 && !o.nested {
                    if let Some(h1) = first_history.get(&o.snap.key) {
                        duplicates += 1;
                        if duplicates % keycheck_every == 0 && *h1 != o.history && stats.key_warnings.is_empty() {
                            stats.key_checks += 1;
                            if let Some(d) = key_differential(&cfg, &b, h1, &o.history, &o.snap.enabled) {
                                // reported by the caller: a machinery error unless violations were found as well
                                // (on a broken tree the verdict matters more than the quality of the key)
                                if stats.key_warnings.len() < 3 {
                                    stats.key_warnings.push(format!("state key is too coarse: {d}"));
                                }
                            }
                        }
                    } else {
                        first_history.insert(o.snap.key, o.history.clone());
                    }
                }
                if seen.insert(o.snap.key) {
                    if let Some(f) = dump.as_mut() {
                        use std::io::Write;
                        let _ = writeln!(f, "{} <= {}", o.snap.key_text, history_json(&o.history));
                    }
                    stats.states += 1;
                    stats.max_depth = stats.max_depth.max(o.history.len());
                    if o.snap.quiescent {
                        stats.quiescent_states += 1;
                    }
                    let mut dh = std::collections::hash_map::DefaultHasher::new();
                    for (_, _, r) in &o.snap.log {
                        if let Rec::Dispatch { conn, worker, .. } = r {
                            (conn, worker).hash(&mut dh);
                        }
                    }
                    if dispatch_logs.insert(dh.finish()) {
                        stats.distinct_dispatch_logs += 1;
                    }
                    if stats.shortest.is_none() {
                        stats.shortest = Some(o.history.clone());
                    }
                    stats.longest = Some(o.history.clone());
                    // determinism guard: a sample of new states is replayed and must give the same key
                    if (o.snap.key.wrapping_add(seed)) % 23 == 0 {
                        let again = run(&cfg, &b, &o.history);
                        stats.replay_checks += 1;
                        stats.executions += 1;
                        if again.key != o.snap.key {
                            machinery.push(format!("replay divergence for history {}:\n first  {}\n second {}", history_json(&o.history), o.snap.key_text, again.key_text));
                        }
                    }
                    let enabled = o.snap.enabled.clone();
                    next.push(Node { history: o.history, enabled, snap_for_nested: if b.nested > 0 || b.nested_generic > 0 { Some(Box::new(o.snap)) } else { None } });
                }
            }
        }
        if stats.states as usize > b.max_states || start.elapsed() > wall_cap {
            stats.capped = true;
            break;
        }
        frontier = next;
    }
    (stats, found, machinery)
}

pub fn lkind_name(k: &LKind) -> &'static str {
    match k {
        LKind::Tcp => "tcp",
        LKind::Uds => "uds",
        LKind::TcpBindSecond => "tcp(second address of the same bind)",
    }
}
