//! Engine A `srvmc`: explicit-state exploration of the real actix-server (DESIGN §4).
mod explore;
mod props;
mod sys;

fn main() {
    let args = mcutil::Args::parse();
    mcutil::silence_panics();
    std::process::exit(props::run(&args));
}
