//! Engine A `srvmc`: explicit-state exploration of the real actix-server (DESIGN §4).
mod e2e;
mod explore;
mod props;
mod sys;

fn main() {
    let argv: Vec<String> = std::env::args().collect();
    if argv.len() == 3 && argv[1] == "--child-signal" {
        e2e::child_main(&argv[2]);
    }
    let args = mcutil::Args::parse();
    mcutil::silence_panics();
    mcutil::guarded_main(|| props::run(&args));
}
