//! Per-property configurations, bounds and monitors (DESIGN §8 C01–C08).

use std::{collections::BTreeMap, time::Duration};

use mcutil::{json, Args, Report, Tier, Violation};

use crate::{
    explore::{self, history_json, Bounds, Phase, Snap, Spec, Step},
    sys::{Config, ErrKind, Ev, LKind, Mode, Rec},
};

// ---------------------------------------------------------------------------------------
// helpers over the log
// ---------------------------------------------------------------------------------------

/// In-progress connections per worker index while walking the log: dispatched and not finished.
#[derive(Default, Clone)]
struct InProg {
    by_worker: BTreeMap<usize, Vec<usize>>,
    worker_of: BTreeMap<usize, usize>,
}

impl InProg {
    fn apply(&mut self, r: &Rec) {
        match r {
            Rec::Dispatch { conn: Some(c), worker, .. } => {
                self.remove(*c);
                self.by_worker.entry(*worker).or_default().push(*c);
                self.worker_of.insert(*c, *worker);
            }
            Rec::DispatchFailed { conn: Some(c) } => self.remove(*c),
            Rec::Done { conn } | Rec::Dropped { conn } => self.remove(*conn),
            _ => {}
        }
    }
    fn remove(&mut self, c: usize) {
        if let Some(w) = self.worker_of.remove(&c) {
            if let Some(v) = self.by_worker.get_mut(&w) {
                v.retain(|x| *x != c);
            }
        }
    }
    fn count(&self, w: usize) -> usize {
        self.by_worker.get(&w).map_or(0, |v| v.len())
    }
}

fn final_inprog(snap: &Snap) -> InProg {
    let mut ip = InProg::default();
    for (_, _, r) in &snap.log {
        ip.apply(r);
    }
    // connections dropped while queued at a worker that shut down are not "in progress" any more
    for (c, info) in snap.conns.iter().enumerate() {
        if info.eof && matches!(info.phase, Phase::Queued(_)) {
            ip.remove(c);
        }
    }
    ip
}

fn fault_happened(snap: &Snap) -> bool {
    snap.log.iter().any(|(_, _, r)| matches!(r, Rec::WorkerGone { .. } | Rec::DispatchFailed { .. } | Rec::AcceptPanic(_)))
        || snap.workers.iter().any(|w| w.view.is_none())
}

fn running(snap: &Snap) -> bool {
    snap.server_done.is_none() && !snap.stop_requested() && snap.accept.is_some() && !snap.accept_exited && !snap.accept_dead
}

fn pause_pending(snap: &Snap) -> bool {
    let paused = snap.accept.as_ref().map_or(false, |a| a.paused);
    let queued = snap.accept.as_ref().map_or(false, |a| a.queue.iter().any(|q| q == "Pause" || q == "Resume"));
    let unprocessed_cmd = snap.cmds.iter().any(|(k, done, _)| matches!(k, Ev::Pause | Ev::Resume) && !*done);
    paused || queued || unprocessed_cmd
}

// ---------------------------------------------------------------------------------------
// monitors
// ---------------------------------------------------------------------------------------

fn mon_c02(snap: &Snap, limit: usize, armed: &mut BTreeMap<String, u64>) -> Vec<(String, String)> {
    let mut out = vec![];
    let mut ip = InProg::default();
    let mut fault = false;
    let mut saturated_seen = false;
    for (step, nested, r) in &snap.log {
        if matches!(r, Rec::WorkerGone { .. } | Rec::DispatchFailed { .. } | Rec::AcceptPanic(_)) {
            fault = true;
        }
        ip.apply(r);
        if let Rec::Dispatch { worker, conn, .. } = r {
            let n = ip.count(*worker);
            if n == limit {
                saturated_seen = true;
            }
            if n > limit && !fault {
                out.push((
                    "C02:over-limit".to_string(),
                    format!("worker {worker} has {n} connections in progress (limit {limit}) after the dispatch of connection {:?} in step {step}{}", conn, if *nested { " (inside a preemption point)" } else { "" }),
                ));
                break;
            }
        }
    }
    if saturated_seen {
        *armed.entry("states_with_a_worker_at_its_limit".into()).or_insert(0) += 1;
    }
    out
}

fn mon_c03(snap: &Snap, limit: usize, armed: &mut BTreeMap<String, u64>) -> Vec<(String, String)> {
    let mut out = vec![];
    if !snap.quiescent || !running(snap) || pause_pending(snap) {
        return out;
    }
    let Some(a) = &snap.accept else { return out };
    if a.socket_deadlines.iter().any(|d| d.is_some()) || a.timeout.is_some() {
        return out; // a listener is backing off after an accept error: C05's business
    }
    let waiting: Vec<usize> = snap.conns.iter().enumerate().filter(|(_, c)| c.phase == Phase::Backlog && !c.eof).map(|(i, _)| i).collect();
    let ip = final_inprog(snap);
    let mut was_saturated = false;
    for idx in &a.handles {
        let Some(w) = snap.live_worker(*idx) else { continue };
        if w.view.as_ref().map_or(true, |v| v.state == "shutdown") {
            continue;
        }
        let n = ip.count(*idx);
        if !snap.avail(*idx) {
            was_saturated = true;
        }
        if n < limit && !waiting.is_empty() {
            let bit = snap.avail(*idx);
            let queued_note = a.queue.iter().any(|q| q.starts_with("WorkerAvailable"));
            let cause = if !bit { "availability-bit-clear" } else { "worker-available-but-listener-not-polled" };
            out.push((
                format!("C03:spare-capacity-unused:{cause}"),
                format!(
                    "quiescent state (no wake-up pending anywhere): connection(s) {:?} wait in the backlog although worker {idx} has {n} of {limit} connections in progress; availability bit of worker {idx} = {bit}, counter raw value = {:?}, WorkerAvailable queued = {queued_note}, listeners registered = {:?}",
                    waiting,
                    a.counters.iter().find(|(i, _)| i == idx).map(|(_, c)| *c),
                    snap.registered
                ),
            ));
            break;
        }
    }
    *armed.entry("quiescent_running_states".into()).or_insert(0) += 1;
    if was_saturated {
        *armed.entry("quiescent_states_with_a_worker_marked_unavailable".into()).or_insert(0) += 1;
    }
    if !waiting.is_empty() {
        *armed.entry("quiescent_states_with_waiting_connections".into()).or_insert(0) += 1;
    }
    out
}

fn mon_c01(snap: &Snap, armed: &mut BTreeMap<String, u64>) -> Vec<(String, String)> {
    mon_c01_cfg(snap, None, armed)
}

fn mon_c01_cfg(snap: &Snap, cfg: Option<&Config>, armed: &mut BTreeMap<String, u64>) -> Vec<(String, String)> {
    let mut out = vec![];
    let mut services_called = std::collections::BTreeSet::new();
    for (step, _, r) in &snap.log {
        if let Rec::Call { conn, svc, slot, .. } = r {
            services_called.insert(*svc);
            match conn {
                None => out.push(("C01:unidentified-connection-served".to_string(), format!("step {step}: a service was called with a stream that is none of the clients' connections"))),
                Some(c) => {
                    let want_svc = cfg.map_or(snap.conns[*c].listener, |k| k.svc_of(snap.conns[*c].listener));
                    if want_svc != *svc {
                        out.push(("C01:wrong-service".to_string(), format!("step {step}: connection {c}, made to socket {} (which belongs to service {want_svc}), was handed to service {svc} (worker slot {slot})", snap.conns[*c].listener)));
                    }
                }
            }
        }
    }
    for (c, info) in snap.conns.iter().enumerate() {
        if info.calls > 1 {
            out.push(("C01:served-twice".to_string(), format!("connection {c} reached {} service calls", info.calls)));
        }
        let any_worker_alive = snap.workers.iter().any(|w| w.view.is_some());
        // a connection that sat in the queue of a worker that then died is lost with that worker
        let lost_with_its_worker = {
            let last_dispatch = snap.log.iter().rposition(|(_, _, r)| matches!(r, Rec::Dispatch { conn: Some(x), .. } if *x == c));
            match last_dispatch {
                Some(p) => {
                    let idx = if let Rec::Dispatch { worker, .. } = &snap.log[p].2 { *worker } else { usize::MAX };
                    let same_idx = |slot: &usize| snap.workers.get(*slot).map(|w| w.idx) == Some(idx);
                    // ... provided it was handed over while that worker was still alive: a worker that is
                    // already being taken apart must refuse the send (its channel is closed first)
                    let dying_before = snap.log[..p].iter().rev().take_while(|(_, _, r)| !matches!(r, Rec::FactoryNew { slot, .. } if same_idx(slot))).any(|(_, _, r)| matches!(r, Rec::WorkerDying { slot } if same_idx(slot)));
                    !dying_before && snap.log[p..].iter().any(|(_, _, r)| matches!(r, Rec::WorkerGone { slot } if same_idx(slot)))
                }
                None => false,
            }
        };
        // "at least one worker is alive" refers to the moment the connection was given up: for a
        // connection the accept loop held after failed sends, that is its last failed send
        let alive_when_given_up = match snap.log.iter().rposition(|(_, _, r)| matches!(r, Rec::DispatchFailed { conn: Some(x) } if *x == c)) {
            Some(p) if info.phase == Phase::Held => {
                let mut alive = std::collections::BTreeSet::new();
                for (_, _, r) in &snap.log[..=p] {
                    match r {
                        Rec::FactoryNew { slot, .. } => {
                            alive.insert(*slot);
                        }
                        Rec::WorkerGone { slot } | Rec::WorkerDying { slot } => {
                            alive.remove(slot);
                        }
                        _ => {}
                    }
                }
                !alive.is_empty()
            }
            _ => any_worker_alive,
        };
        if info.eof && !info.reset && info.calls == 0 && !snap.stop_requested() && any_worker_alive && alive_when_given_up && snap.server_done.is_none() && !lost_with_its_worker {
            out.push((
                "C01:discarded-while-running".to_string(),
                format!("connection {c} (listener {}) was closed by the server without ever reaching a service call, while the server is running and a worker is alive (phase {:?})", info.listener, info.phase),
            ));
        }
        if snap.server_done.is_some() && snap.quiescent && matches!(info.phase, Phase::Queued(_)) && !info.eof {
            out.push(("C01:leaked-at-shutdown".to_string(), format!("server stopped, connection {c} was queued at a worker and is neither served nor closed")));
        }
    }
    if snap.quiescent {
        for w in &snap.workers {
            if let Some(v) = &w.view {
                if v.state == "shutdown" {
                    *armed.entry("quiescent_states_with_a_worker_shutting_down".into()).or_insert(0) += 1;
                    if v.queued > 0 {
                        out.push(("C01:queued-connection-not-released-by-shutting-down-worker".to_string(), format!("quiescent: worker {} is shutting down and still holds {} queued connection(s) that are neither served nor closed", w.idx, v.queued)));
                    }
                }
            }
        }
    }
    // liveness: a connection that sits in the queue of a live, running worker whose services
    // are all ready is handed to its service; at a quiescent state nothing will do that any more
    if snap.quiescent && snap.server_done.is_none() && !snap.stop_requested() {
        let n_svc = snap.modes.iter().map(|((_, v), _)| *v + 1).max().unwrap_or(1);
        for (c, info) in snap.conns.iter().enumerate() {
            if let Phase::Queued(idx) = info.phase {
                if let Some(w) = snap.live_worker(idx) {
                    let running = w.view.as_ref().map_or(false, |v| v.state != "shutdown");
                    let all_ready = (0..n_svc).all(|v| snap.mode(w.slot, v) == Mode::Ready);
                    if running && all_ready && (!info.eof || info.reset) {
                        *armed.entry("quiescent_states_checked_for_stuck_queued_connections".into()).or_insert(0) += 1;
                        out.push((
                            "C01:queued-connection-never-served".to_string(),
                            format!("quiescent (no wake-up pending anywhere): connection {c} sits in the queue of worker {idx} (state {:?}), which is alive, not shutting down, with every service ready - nothing will hand it to its service", w.view.as_ref().map(|v| v.state)),
                        ));
                    }
                }
            }
        }
    }
    if services_called.len() >= 2 {
        *armed.entry("states_with_two_services_called".into()).or_insert(0) += 1;
    }
    if snap.conns.iter().any(|c| c.eof && c.calls == 0) {
        *armed.entry("states_with_a_connection_released_unserved".into()).or_insert(0) += 1;
    }
    out
}

/// Round-robin: within a window of W consecutive dispatches during which the accept loop saw
/// every worker as available (all bits set at the turn boundaries, nobody reached the limit),
/// the targets are W distinct workers. A worker whose bit is clear receives nothing.
fn mon_c04(snap: &Snap, workers: usize, limit: usize, armed: &mut BTreeMap<String, u64>) -> Vec<(String, String)> {
    let mut out = vec![];
    let full: u128 = (1u128 << workers) - 1;
    let mut ip = InProg::default();
    // dispatch records annotated with "all bits were set and stay set"
    let mut all_avail = true; // at construction every worker is available
    let mut window: Vec<(usize, usize)> = vec![]; // (conn, worker) while all_avail holds
    let mut bit_clear: BTreeMap<usize, bool> = BTreeMap::new();
    let mut failed_in_turn: Vec<usize> = vec![];
    let mut forced_onto: Vec<usize> = vec![];
    let mut pair_clean = workers >= 2;
    let mut last_clean_dispatch: Option<(usize, usize)> = None;
    for (step, _, r) in &snap.log {
        // connections of a dead worker no longer belong to the worker index that is reused by its replacement
        if let Rec::WorkerGone { slot } = r {
            let gone: Vec<usize> = snap.log.iter().filter_map(|(_, _, x)| if let Rec::Call { conn: Some(c), slot: s, .. } = x { (s == slot).then_some(*c) } else { None }).collect();
            for c in gone {
                ip.remove(c);
            }
            if let Some(ws) = snap.workers.get(*slot) {
                // still queued ones die with it too
                let q: Vec<usize> = ip.by_worker.get(&ws.idx).cloned().unwrap_or_default();
                for c in q {
                    ip.remove(c);
                }
            }
        }
        if let Rec::AcceptQueueBefore(_) = r {
            failed_in_turn.clear();
        }
        if let Rec::DispatchFailed { conn: Some(c) } = r {
            failed_in_turn.push(*c);
        }
        if let Rec::Dispatch { conn: Some(c), worker, .. } = r {
            let before = ip.count(*worker);
            if failed_in_turn.contains(c) && bit_clear.get(worker) == Some(&true) {
                // a connection whose first target was dead is forced onto a survivor that the accept
                // loop had marked unavailable (C08's re-routing)
                forced_onto.push(*worker);
            }
            if before >= limit && !failed_in_turn.contains(c) {
                let cause = if forced_onto.contains(worker) { ":after-forced-reroute-to-a-worker-marked-unavailable" } else { "" };
                out.push((
                    format!("C04:dispatch-to-saturated-worker{cause}"),
                    format!("step {step}: connection {c} dispatched to worker {worker}, which already has {before} connections in progress (limit {limit}) and has not released one{}", if cause.is_empty() { "" } else { " (earlier in this history a connection whose first target was dead was force-sent to this worker while it was marked unavailable; a WorkerAvailable notification that was already queued then marked it available again)" }),
                ));
                break;
            }
        }
        ip.apply(r);
        match r {
            Rec::AcceptState { avail, handles, .. } => {
                // round-robin over whatever handles there are: with at least two handles, all of them
                // available, two dispatches in a row never go to the same worker
                pair_clean = handles.len() >= 2 && handles.iter().all(|h| avail & (1u128 << h) != 0);
                if !pair_clean {
                    last_clean_dispatch = None;
                }
                // "while no worker is saturated" is read at the moment of each dispatch: a dispatch
                // counts if every availability bit was set when it was made (bits are cleared only by
                // a saturating dispatch or a fault, so: set at the previous turn boundary and no
                // saturating dispatch since). Consecutive such dispatches form the window.
                all_avail = avail & full == full;
                for w in 0..workers {
                    bit_clear.insert(w, avail & (1u128 << w) == 0);
                }
            }
            Rec::DispatchFailed { .. } => {
                // a dead worker was discovered in the middle of a turn: its handle is gone, "every
                // worker is available" does not hold until a later turn boundary shows all bits again
                all_avail = false;
                window.clear();
                pair_clean = false;
                last_clean_dispatch = None;
            }
            Rec::Dispatch { conn: Some(c), worker, .. } => {
                if bit_clear.get(worker) == Some(&true) && ip.count(*worker) > limit {
                    // dispatch to a worker marked unavailable beyond its limit is C02's finding
                }
                if pair_clean {
                    if let Some((pc, pw)) = last_clean_dispatch {
                        if pw == *worker {
                            out.push((
                                "C04:same-worker-twice-in-a-row".to_string(),
                                format!("step {step}: connections {pc} and {c} were dispatched one after the other to worker {worker} although the accept loop held at least two handles and all of them were available"),
                            ));
                            break;
                        }
                    }
                    last_clean_dispatch = Some((*c, *worker));
                    if ip.count(*worker) >= limit {
                        pair_clean = false;
                        last_clean_dispatch = if limit == 1 { None } else { last_clean_dispatch };
                    }
                }
                if !all_avail {
                    window.clear();
                }
                if all_avail {
                    window.push((*c, *worker));
                    if window.len() >= workers {
                        let last = &window[window.len() - workers..];
                        let mut t: Vec<usize> = last.iter().map(|x| x.1).collect();
                        t.sort();
                        t.dedup();
                        if t.len() != workers {
                            out.push((
                                "C04:not-round-robin".to_string(),
                                format!("step {step}: {workers} consecutive dispatches {:?} (connection, worker) while every worker was available did not go to {workers} distinct workers", last),
                            ));
                            break;
                        }
                        *armed.entry("full_round_robin_windows_checked".into()).or_insert(0) += 1;
                    }
                }
                if ip.count(*worker) >= limit {
                    // this worker is saturated now: its bit is cleared by the accept loop (the
                    // dispatch itself was made with every bit set and stays in the window)
                    all_avail = false;
                }
            }
            _ => {}
        }
    }
    // each index is tracked on its own: at quiescence a live worker with room is not marked full
    if out.is_empty() && snap.quiescent && running(snap) && !pause_pending(snap) {
        if let Some(a) = &snap.accept {
            for idx in &a.handles {
                if let Some(w) = snap.live_worker(*idx) {
                    let n = snap.conns.iter().filter(|c| matches!(c.phase, Phase::Serving(s) if s == w.slot)).count() + w.view.as_ref().map_or(0, |v| v.queued);
                    let ready = w.view.as_ref().map_or(false, |v| v.state == "available");
                    if n < limit && ready && !snap.avail(*idx) {
                        out.push(("C04:idle-worker-marked-unavailable".to_string(), format!("quiescent: worker {idx} has {n} of {limit} connections in progress and is ready, nothing is queued for the accept loop, yet its availability bit is clear: it will not be given anything")));
                        break;
                    }
                }
            }
        }
    }
    out
}


// ---- C05 -------------------------------------------------------------------------------

fn mon_c05(snap: &Snap, limit: usize, armed: &mut BTreeMap<String, u64>) -> Vec<(String, String)> {
    let mut out = vec![];
    // safety: no dispatch while the accept loop is paused
    let mut paused = false;
    let mut turn_queue: Vec<String> = vec![];
    let mut turn_tokens: Vec<usize> = vec![];
    let mut dispatches_in_turn: Vec<(usize, Option<usize>)> = vec![];
    let mut ref_paused = false; // reference: fold of the commands the accept loop has processed
    for (step, _, r) in &snap.log {
        match r {
            Rec::AcceptQueueBefore(q) => {
                turn_queue = q.clone();
                turn_tokens.clear();
                dispatches_in_turn.clear();
            }
            Rec::AcceptTokens(t) => turn_tokens = t.clone(),
            // what the loop really took off its queue in this turn (interests pushed by other
            // actors while the turn ran included)
            Rec::AcceptProcessed(p) => turn_queue = p.clone(),
            Rec::Dispatch { conn, .. } => dispatches_in_turn.push((*step, *conn)),
            Rec::AcceptState { .. } | Rec::AcceptExited => {
                let end_paused = if let Rec::AcceptState { paused: p, .. } = r { *p } else { paused };
                let waker_processed = turn_tokens.contains(&usize::MAX);
                let cmds: Vec<&String> = if waker_processed { turn_queue.iter().collect() } else { vec![] };
                for c in &cmds {
                    match c.as_str() {
                        "Pause" => ref_paused = true,
                        "Resume" => ref_paused = false,
                        _ => {}
                    }
                }
                let resume_in_turn = cmds.iter().any(|c| c.as_str() == "Resume");
                let pause_in_turn = cmds.iter().any(|c| c.as_str() == "Pause");
                if !dispatches_in_turn.is_empty() {
                    if paused && end_paused && !resume_in_turn {
                        out.push(("C05:dispatch-while-paused".to_string(), format!("step {step}: connection(s) {:?} dispatched in an accept turn that began and ended paused", dispatches_in_turn)));
                    } else if !paused && end_paused && pause_in_turn && !resume_in_turn {
                        // Pause was processed in this turn: dispatches are only legitimate if they came first
                        let waker_pos = turn_tokens.iter().position(|t| *t == usize::MAX);
                        let first_listener_pos = turn_tokens.iter().position(|t| *t != usize::MAX);
                        if let (Some(wp), Some(lp)) = (waker_pos, first_listener_pos) {
                            if wp < lp && !turn_queue.iter().any(|q| q.starts_with("WorkerAvailable") || q.starts_with("Worker(")) {
                                out.push(("C05:dispatch-after-pause-in-same-poll-batch".to_string(), format!("step {step}: the accept loop processed Pause and then, in the same batch of poll events, accepted and dispatched {:?}", dispatches_in_turn)));
                            }
                        }
                    }
                }
                if let Rec::AcceptState { paused: p, .. } = r {
                    if waker_processed && *p != ref_paused {
                        out.push(("C05:pause-resume-not-idempotent".to_string(), format!("step {step}: after processing {:?} the accept loop is paused={p}, the reference says {ref_paused}", turn_queue)));
                    }
                    paused = *p;
                }
            }
            _ => {}
        }
        if !out.is_empty() {
            return out;
        }
    }
    // per-connection accept errors must not put the listener into back-off
    if let Some(a) = &snap.accept {
        let injected: Vec<ErrKind> = snap.log.iter().filter_map(|(_, _, r)| if let Rec::Injected { kind, .. } = r { Some(*kind) } else { None }).collect();
        let only_per_connection = !injected.is_empty() && injected.iter().all(|k| matches!(k, ErrKind::Aborted | ErrKind::Reset | ErrKind::Refused));
        if only_per_connection {
            *armed.entry("states_after_only_per_connection_errors".into()).or_insert(0) += 1;
            if let Some(l) = a.socket_deadlines.iter().position(|d| d.is_some()) {
                out.push(("C05:per-connection-error-delays-listener".to_string(), format!("only per-connection accept errors {:?} were injected, yet listener {l} is backing off (deadline in {:?})", injected, a.socket_deadlines[l])));
                return out;
            }
        }
    }
    // liveness at quiescent states
    if !snap.quiescent || !running(snap) {
        return out;
    }
    let Some(a) = &snap.accept else { return out };
    // every pause / resume that was acknowledged has reached the accept loop by now: the loop's
    // state is the one the last of them asks for
    let pr: Vec<&(Ev, bool, bool)> = snap.cmds.iter().filter(|(k, _, _)| matches!(k, Ev::Pause | Ev::Resume)).collect();
    if !pr.is_empty() && pr.iter().all(|(_, done, _)| *done) && !a.queue.iter().any(|q| q == "Pause" || q == "Resume") {
        *armed.entry("quiescent_states_with_every_pause_and_resume_acknowledged".into()).or_insert(0) += 1;
        let want = matches!(pr.last().unwrap().0, Ev::Pause);
        if a.paused != want {
            let seq: Vec<String> = pr.iter().map(|(k, _, _)| format!("{:?}", k)).collect();
            out.push((
                if want { "C05:acknowledged-pause-never-took-effect" } else { "C05:acknowledged-resume-never-took-effect" }.to_string(),
                format!("quiescent: the commands {:?} have all been acknowledged and nothing is queued for the accept loop, yet the loop is paused={} (the last command asks for paused={want})", seq, a.paused),
            ));
            return out;
        }
    }
    if a.paused || pause_pending(snap) {
        *armed.entry("quiescent_paused_states".into()).or_insert(0) += 1;
        return out;
    }
    *armed.entry("quiescent_running_states".into()).or_insert(0) += 1;
    for (l, reg) in snap.registered.iter().enumerate() {
        let deadline = a.socket_deadlines.get(l).copied().flatten();
        if !*reg {
            if deadline == Some(Duration::ZERO) && !snap.accept_timer_expired {
                out.push((
                    "C05:back-off-deadline-passed-unnoticed".to_string(),
                    format!("quiescent, running, not paused: the back-off deadline of listener {l} has passed, it is still not registered, and the accept poll's timeout ({:?}) is not due yet, so nothing will bring it back now", a.timeout),
                ));
                return out;
            }
            if deadline.is_some() && a.timeout.is_some() {
                *armed.entry("quiescent_states_with_a_listener_backing_off".into()).or_insert(0) += 1;
                continue; // backing off, the timer will bring it back
            }
            out.push((
                "C05:listener-stranded".to_string(),
                format!("quiescent, running, not paused: listener {l} is not registered with the accept poll and no back-off timer is armed (socket deadline {:?}, poll timeout {:?})", deadline, a.timeout),
            ));
            return out;
        }
        if snap.uds_path_exists.get(l).copied().flatten() == Some(false) {
            out.push(("C05:uds-path-unlinked".to_string(), format!("quiescent, running, not paused: listener {l} is registered but its socket path no longer exists, so no client can connect to it")));
            return out;
        }
    }
    if snap.log.iter().any(|(_, _, r)| matches!(r, Rec::ConnectFailed { .. })) {
        let e = snap.log.iter().find_map(|(_, _, r)| if let Rec::ConnectFailed { listener, err } = r { Some(format!("listener {listener}: {err}")) } else { None });
        out.push(("C05:client-cannot-connect".to_string(), format!("a client connect failed ({})", e.unwrap())));
        return out;
    }
    // waiting connections are dispatched given capacity (listeners that are backing off excepted)
    let ip = final_inprog(snap);
    let spare = a.handles.iter().any(|idx| snap.live_worker(*idx).is_some() && ip.count(*idx) < limit);
    for (c, info) in snap.conns.iter().enumerate() {
        if info.phase == Phase::Backlog && !info.eof && spare {
            let backing_off = a.socket_deadlines.get(info.listener).copied().flatten().is_some();
            if !backing_off {
                out.push((
                    "C05:waiting-connection-not-accepted".to_string(),
                    format!("quiescent, running, not paused, spare worker capacity: connection {c} still waits on listener {} (registered {:?}, availability bits {:x})", info.listener, snap.registered, a.avail_words[0]),
                ));
                return out;
            }
        }
    }
    out
}

// ---- C06 -------------------------------------------------------------------------------

fn mon_c06(snap: &Snap, timeout_s: u64, armed: &mut BTreeMap<String, u64>) -> Vec<(String, String)> {
    let mut out = vec![];
    // what was asked for: first stop command in history order decides (the server handles one)
    let mut first_stop: Option<bool> = None; // Some(graceful)
    let mut first_by_signal = false;
    for (_, _, r) in &snap.log {
        match r {
            Rec::CmdSent(Ev::Stop(g)) if first_stop.is_none() => first_stop = Some(*g),
            Rec::SignalSent(n) if first_stop.is_none() => {
                first_stop = Some(*n == 15);
                first_by_signal = true;
            }
            _ => {}
        }
    }
    if let Some((_, _, Rec::ServerPanic(m))) = snap.log.iter().find(|(_, _, r)| matches!(r, Rec::ServerPanic(_))) {
        out.push(("C06:server-future-panicked".to_string(), format!("the Server future panicked instead of resolving: {m}")));
        return out;
    }
    if let Some((_, _, Rec::AcceptJoin { exited: false })) = snap.log.iter().find(|(_, _, r)| matches!(r, Rec::AcceptJoin { exited: false })) {
        out.push(("C06:accept-loop-does-not-stop".to_string(), "the accept loop did not exit after the Stop interest (join would block forever)".to_string()));
        return out;
    }
    // no dispatch after completion
    let done_pos = snap.log.iter().position(|(_, _, r)| matches!(r, Rec::ServerDone { .. }));
    if let Some(p) = done_pos {
        if let Some((step, _, r)) = snap.log[p..].iter().find(|(_, _, r)| matches!(r, Rec::Dispatch { .. })) {
            out.push(("C06:dispatch-after-completion".to_string(), format!("step {step}: {:?} after the Server future resolved", r)));
            return out;
        }
        if snap.server_done == Some(false) {
            out.push(("C06:server-future-error".to_string(), "the Server future resolved with an error".to_string()));
        }
    }
    let Some(graceful) = first_stop else { return out };
    // forced: the server task goes straight from telling the workers to joining the accept loop; it never waits
    // for a worker (which may be busy with a connection and not get to its stop message for a long time)
    if !graceful {
        let stop_at = snap.log.iter().position(|(_, _, r)| matches!(r, Rec::StopProcessed));
        if let Some(p) = stop_at {
            let joined = snap.log[p..].iter().any(|(_, _, r)| matches!(r, Rec::AcceptJoin { .. }));
            let step_of_stop = snap.log[p].0;
            let later_step = snap.log.iter().any(|(s, _, _)| *s > step_of_stop) || snap.steps > step_of_stop;
            if !joined && later_step && snap.server_done.is_none() {
                out.push(("C06:forced-stop-waits-for-workers".to_string(), "forced stop: after telling the workers to stop the server task did not go on to join the accept loop in the same turn; it is waiting for something a busy worker may not deliver".to_string()));
                return out;
            }
            *armed.entry("forced_stops_checked_for_not_waiting".into()).or_insert(0) += 1;
        }
    }
    // graceful must wait: at the moment the server resolved, connections that were in progress at a
    // worker must have finished, unless shutdown_timeout had elapsed since the worker was told to stop
    if graceful {
        if let Some(p) = done_pos {
            let t_done = snap.log_ms[p];
            let mut ip = InProg::default();
            for (_, _, r) in &snap.log[..p] {
                ip.apply(r);
            }
            // time at which the server task sent the stop to the workers
            let t_stop = snap.log.iter().zip(&snap.log_ms).find_map(|((_, _, r), ms)| if matches!(r, Rec::StopProcessed) { Some(*ms) } else { None });
            let called: Vec<usize> = snap.log[..p].iter().filter_map(|(_, _, r)| if let Rec::Call { conn: Some(c), .. } = r { Some(*c) } else { None }).collect();
            let still: Vec<usize> = ip.worker_of.keys().copied().filter(|c| called.contains(c)).collect();
            if let Some(ts) = t_stop {
                if !still.is_empty() && t_done < ts.saturating_add(timeout_s.saturating_mul(1000)) {
                    out.push((
                        "C06:graceful-stop-did-not-wait".to_string(),
                        format!("graceful stop resolved at {t_done} ms, {} ms after the workers were told to stop (shutdown_timeout {timeout_s} s), while connection(s) {:?} were still being served", t_done - ts, still),
                    ));
                    return out;
                }
                if !still.is_empty() {
                    *armed.entry("graceful_stops_ended_by_timeout".into()).or_insert(0) += 1;
                }
            }
        }
    }
    if !snap.quiescent {
        return out;
    }
    // liveness: stop always completes
    let stop_processed = snap.log.iter().any(|(_, _, r)| matches!(r, Rec::StopProcessed));
    if !stop_processed {
        return out; // the server task has not looked at the command yet (cannot be quiescent then, but be safe)
    }
    *armed.entry("quiescent_states_after_stop".into()).or_insert(0) += 1;
    let workers_all_gone = snap.workers.iter().all(|w| w.view.is_none());
    // a stop that came in as a signal asks for a system stop: the server sleeps 300 ms before it resolves
    let by_signal = first_by_signal;
    let t_stop = snap.log.iter().zip(&snap.log_ms).find_map(|((_, _, r), ms)| if matches!(r, Rec::StopProcessed) { Some(*ms) } else { None }).unwrap_or(0);
    let t_join = snap.log.iter().zip(&snap.log_ms).find_map(|((_, _, r), ms)| if matches!(r, Rec::AcceptJoin { .. }) { Some(*ms) } else { None });
    let _ = t_stop;
    if snap.server_done.is_none() && by_signal && t_join.map_or(false, |j| snap.now_ms < j + 300) {
        *armed.entry("quiescent_states_in_the_300ms_system_exit_delay".into()).or_insert(0) += 1;
        return out;
    }
    if snap.server_done.is_none() {
        if !graceful {
            out.push(("C06:forced-stop-waits".to_string(), format!("forced stop: all wake-ups processed and the Server future has not resolved (workers gone: {workers_all_gone})")));
            return out;
        }
        if workers_all_gone {
            out.push(("C06:stop-does-not-complete".to_string(), "graceful stop: every worker has finished, all wake-ups are processed, and the Server future has not resolved".to_string()));
            return out;
        }
        for w in &snap.workers {
            if let Some(v) = &w.view {
                match v.state {
                    "shutdown" => {
                        let el = v.shutdown_elapsed.unwrap_or_default().as_millis() as u64;
                        if el >= timeout_s.saturating_mul(1000).saturating_add(1000) {
                            out.push(("C06:shutdown-exceeds-timeout".to_string(), format!("worker {} is still shutting down {el} ms after it was told to stop (shutdown_timeout {timeout_s} s, 1 s tick)", w.idx)));
                            return out;
                        }
                        let inprog = v.counter_raw.saturating_sub(1);
                        if inprog == 0 && v.shutdown_tick_in.map_or(true, |t| t.as_millis() > 1000) {
                            out.push(("C06:idle-worker-not-finishing".to_string(), format!("worker {} is idle in shutdown with no tick pending within 1 s", w.idx)));
                            return out;
                        }
                    }
                    other => {
                        // a live worker that was told to stop must have seen it at quiescence
                        out.push(("C06:worker-ignored-stop".to_string(), format!("worker {} is in state {other} although the stop was sent and all wake-ups are processed", w.idx)));
                        return out;
                    }
                }
            }
        }
    } else {
        *armed.entry("states_with_server_resolved".into()).or_insert(0) += 1;
        for (i, (k, done, dropped)) in snap.cmds.iter().enumerate() {
            if matches!(k, Ev::Stop(_)) && !done && !dropped {
                out.push(("C06:stop-future-unresolved".to_string(), format!("the Server future resolved but the future of stop call #{i} ({:?}) is still pending", k)));
                return out;
            }
        }
        if !graceful {
            let serving = snap.conns.iter().filter(|c| matches!(c.phase, Phase::Serving(_))).count();
            if serving > 0 {
                *armed.entry("forced_stops_resolved_with_connections_in_flight".into()).or_insert(0) += 1;
            }
        }
    }
    out
}

// ---- C07 -------------------------------------------------------------------------------

fn mon_c07(snap: &Snap, n_services: usize, armed: &mut BTreeMap<String, u64>) -> Vec<(String, String)> {
    let mut out = vec![];
    // per slot: readiness answers since the last call / failure, FIFO of dispatched connections
    let mut since: BTreeMap<usize, Vec<(usize, &'static str)>> = BTreeMap::new();
    let mut fifo: BTreeMap<usize, Vec<usize>> = BTreeMap::new(); // by worker idx
    let mut instances: BTreeMap<(usize, usize), usize> = BTreeMap::new();
    let mut expected_instances: BTreeMap<(usize, usize), usize> = BTreeMap::new();
    let slot_idx = |slot: usize| snap.workers.get(slot).map(|w| w.idx).unwrap_or(slot);
    for (step, _, r) in &snap.log {
        match r {
            Rec::FactoryNew { slot, svc, instance } => {
                instances.insert((*slot, *svc), *instance);
                expected_instances.entry((*slot, *svc)).or_insert(1);
            }
            Rec::ReadyPoll { slot, svc, res, .. } => {
                since.entry(*slot).or_default().push((*svc, res));
                if *res == "err" {
                    *expected_instances.entry((*slot, *svc)).or_insert(1) += 1;
                }
            }
            Rec::Dispatch { conn: Some(c), worker, .. } => fifo.entry(*worker).or_default().push(*c),
            Rec::Call { conn: Some(c), slot, svc: _, .. } => {
                let polls = since.remove(slot).unwrap_or_default();
                // the last n_services answers must be one full round, all ready
                let tail: Vec<&(usize, &str)> = polls.iter().rev().take(n_services).collect();
                let mut svcs: Vec<usize> = tail.iter().map(|t| t.0).collect();
                svcs.sort();
                svcs.dedup();
                if tail.len() < n_services || svcs.len() != n_services || tail.iter().any(|t| t.1 != "ready") {
                    out.push((
                        "C07:call-without-full-ready-round".to_string(),
                        format!("step {step}: worker slot {slot} called a service for connection {c} without every service having just reported ready (readiness answers since the previous call: {:?})", polls),
                    ));
                    return out;
                }
                *armed.entry("calls_checked".into()).or_insert(0) += 1;
                let q = fifo.entry(slot_idx(*slot)).or_default();
                if q.first() != Some(c) {
                    out.push(("C07:not-fifo".to_string(), format!("step {step}: worker slot {slot} served connection {c} while {:?} were queued before it", q)));
                    return out;
                }
                q.remove(0);
            }
            _ => {}
        }
    }
    for (k, want) in &expected_instances {
        let got = instances.get(k).copied().unwrap_or(0);
        let worker_alive = snap.workers.get(k.0).map_or(false, |w| w.view.is_some());
        if got > *want {
            out.push(("C07:service-recreated-without-failure".to_string(), format!("service {} on worker slot {} was created {got} times, {want} expected (1 + number of failed readiness checks)", k.1, k.0)));
            return out;
        }
        if got < *want && snap.quiescent && worker_alive {
            let restarting = snap.workers[k.0].view.as_ref().map_or(false, |v| v.state == "restarting");
            if !restarting {
                out.push(("C07:failed-service-not-recreated".to_string(), format!("service {} on worker slot {} failed its readiness check but was created only {got} times", k.1, k.0)));
                return out;
            }
        }
        if *want > 1 {
            *armed.entry("states_after_a_service_restart".into()).or_insert(0) += 1;
        }
    }
    if snap.quiescent && running(snap) {
        for w in &snap.workers {
            let Some(v) = &w.view else { continue };
            let all_ready = (0..n_services).all(|s| snap.mode(w.slot, s) == Mode::Ready);
            if all_ready && v.queued > 0 {
                out.push(("C07:queued-connection-not-served".to_string(), format!("quiescent: worker {} has {} queued connection(s) although every service is ready (worker state {}, services {:?})", w.idx, v.queued, v.state, v.services)));
                return out;
            }
            if !all_ready && v.queued > 0 {
                *armed.entry("quiescent_states_with_connections_waiting_for_readiness".into()).or_insert(0) += 1;
            }
        }
    }
    out
}

// ---- C08 -------------------------------------------------------------------------------

fn mon_c08(snap: &Snap, workers: usize, limit: usize, armed: &mut BTreeMap<String, u64>) -> Vec<(String, String)> {
    let mut out = vec![];
    for (step, _, r) in &snap.log {
        match r {
            Rec::AcceptPanic(m) => {
                let sig = if m.contains("does not terminate") { "C08:accept-loop-spins" } else { "C08:accept-loop-panicked" };
                out.push((sig.to_string(), format!("step {step}: the accept loop {}: {m}", if sig.ends_with("spins") { "re-dispatches forever" } else { "panicked" })));
                return out;
            }
            Rec::ServerPanic(m) => {
                out.push(("C08:accept-loop-panicked-at-join".to_string(), format!("step {step}: the server task panicked while joining the accept thread: {m}")));
                return out;
            }
            _ => {}
        }
    }
    // the dead worker receives nothing further: once it has died, a send to it must fail
    {
        let mut dying: Vec<usize> = vec![]; // worker idx
        let mut i = 0;
        while i < snap.log.len() {
            match &snap.log[i].2 {
                Rec::WorkerDying { slot } => {
                    if let Some(w) = snap.workers.get(*slot) {
                        dying.push(w.idx);
                    }
                }
                Rec::Dispatch { conn, worker, .. } if dying.contains(worker) => {
                    // is it still the dead one (no replacement handle for that idx has been stored since)?
                    // (look back to the most recent death of a worker with *this* index only)
                    let is_this_idx = |r: &Rec| matches!(r, Rec::WorkerDying { slot } if snap.workers.get(*slot).map(|w| w.idx) == Some(*worker));
                    let handle_stored = |r: &Rec| match r {
                        Rec::AcceptQueueBefore(q) | Rec::AcceptProcessed(q) => q.iter().any(|x| x == &format!("Worker({worker})")),
                        _ => false,
                    };
                    let replaced = snap.log[..i].iter().rev().take_while(|(_, _, r)| !is_this_idx(r)).any(|(_, _, r)| handle_stored(r))
                        // ... or in this very accept turn (what the turn took off its queue is recorded at its end)
                        || snap.log[i..].iter().find_map(|(_, _, r)| if let Rec::AcceptProcessed(q) = r { Some(q.iter().any(|x| x == &format!("Worker({worker})"))) } else { None }).unwrap_or(false);
                    let failed = matches!(snap.log.get(i + 1).map(|x| &x.2), Some(Rec::DispatchFailed { .. }));
                    if !failed && !replaced {
                        // where was the dying worker at that moment? Still unwinding (it has just
                        // announced a free slot from the drop of a connection guard: finding F10), or
                        // already being taken apart (then its channel must have been closed first)
                        let last_point = snap.log[..i].iter().rev().find_map(|(_, _, r)| if let Rec::PointSeen(p) = r { Some(*p) } else { None });
                        let unwinding = matches!(last_point, Some(crate::sys::Pt::Hook(actix_server::verif::Point::AfterWake)) | Some(crate::sys::Pt::Hook(actix_server::verif::Point::AfterPush)) | Some(crate::sys::Pt::Hook(actix_server::verif::Point::AfterDec(_))));
                        let sig = if unwinding { "C08:dead-worker-accepted-a-connection:while-it-unwinds-from-a-panic-inside-call" } else { "C08:dead-worker-accepted-a-connection" };
                        out.push((sig.to_string(), format!("step {}: connection {:?} was sent to worker {worker} after that worker had {}, and the send succeeded (its connection channel was still open), so the connection is lost instead of being re-routed", snap.log[i].0, conn, if unwinding { "begun to die (it is unwinding out of Service::call and the guard of the connection that killed it has just announced a free slot)" } else { "died" })));
                        if !unwinding {
                            return out;
                        }
                    }
                }
                _ => {}
            }
            i += 1;
        }
        if !dying.is_empty() {
            *armed.entry("histories_with_a_dead_worker".into()).or_insert(0) += 1;
        }
    }
    // walk the accept turns: handles known at turn boundaries
    let mut handles: Vec<usize> = (0..workers).collect();
    let mut turn_queue: Vec<String> = vec![];
    let mut failed_in_turn: Vec<usize> = vec![];
    let mut dead_idx: Vec<usize> = vec![]; // idx whose fault the accept loop has discovered and not yet replaced
    for (step, _, r) in &snap.log {
        match r {
            Rec::AcceptQueueBefore(q) => {
                turn_queue = q.clone();
                failed_in_turn.clear();
            }
            Rec::Dispatch { worker, conn, .. } => {
                if dead_idx.contains(worker) && !turn_queue.iter().any(|q| q == &format!("Worker({worker})")) {
                    out.push(("C08:dispatch-to-removed-worker".to_string(), format!("step {step}: connection {:?} sent to worker {worker} whose handle had been removed after a failed send", conn)));
                    return out;
                }
            }
            Rec::DispatchFailed { conn } => {
                // the Dispatch just before tells which worker
                if let Some(c) = conn {
                    failed_in_turn.push(*c);
                }
            }
            Rec::AcceptState { handles: h, .. } => {
                for idx in 0..workers {
                    if handles.contains(&idx) && !h.contains(&idx) && !dead_idx.contains(&idx) {
                        dead_idx.push(idx);
                    }
                    if h.contains(&idx) {
                        dead_idx.retain(|d| *d != idx);
                    }
                }
                handles = h.clone();
                for c in &failed_in_turn {
                    let info = &snap.conns[*c];
                    let rerouted = snap.log.iter().any(|(s2, _, r2)| *s2 >= *step && matches!(r2, Rec::Dispatch { conn: Some(x), .. } if x == c));
                    if !rerouted && info.calls == 0 && !h.is_empty() && !turn_queue.iter().any(|q| q.starts_with("Worker(")) {
                        out.push(("C08:connection-dropped-although-a-worker-was-left".to_string(), format!("step {step}: the send of connection {c} failed and it was not re-routed although handles {:?} were left", h)));
                        return out;
                    }
                }
                if !failed_in_turn.is_empty() {
                    *armed.entry("accept_turns_that_discovered_a_dead_worker".into()).or_insert(0) += 1;
                }
            }
            _ => {}
        }
    }
    if snap.quiescent && running(snap) {
        let Some(a) = &snap.accept else { return out };
        // a worker that has died, whose handle the accept loop still holds and marks unavailable: its
        // death can only be discovered by a failed send, nothing is sent to an unavailable worker,
        // and only the dead worker itself could have announced availability - so it is never
        // replaced (finding F10: connections that were queued at it, not yet received, keep its
        // counter at the limit and are dropped without counting down)
        for idx in &a.handles {
            let died = snap.workers.iter().any(|w| w.idx == *idx && w.finished && snap.log.iter().any(|(_, _, r)| matches!(r, Rec::WorkerDying { slot } if *slot == w.slot)));
            if died && snap.live_worker(*idx).is_none() && !snap.avail(*idx) {
                let waiting: Vec<usize> = snap.conns.iter().enumerate().filter(|(_, c)| c.phase == Phase::Backlog && !c.eof).map(|(i, _)| i).collect();
                // were connections sitting un-received in its queue when it died? (they are dropped
                // without counting down: finding F10) - otherwise something else kept its bit clear
                let queued_at_death = snap.conns.iter().any(|c| c.phase == Phase::Queued(*idx) && c.calls == 0);
                out.push((
                    if queued_at_death { "C08:dead-worker-never-discovered:unreceived-connections-died-with-its-queue" } else { "C08:dead-worker-never-discovered" }.to_string(),
                    format!("quiescent: worker {idx} has died, the accept loop still holds its handle and marks it unavailable (counter {:?}), so nothing will ever be sent to it, its death is never discovered and no replacement is started (connections waiting: {:?})", a.counters.iter().find(|(i, _)| i == idx).map(|(_, c)| *c), waiting),
                ));
                break;
            }
        }
        if !dead_idx.is_empty() {
            out.push(("C08:dead-worker-not-replaced".to_string(), format!("quiescent: worker(s) {:?} were found dead by the accept loop and no replacement has joined the rotation (handles {:?}, worker slots {:?})", dead_idx, a.handles, snap.workers.iter().map(|w| (w.idx, w.view.is_some())).collect::<Vec<_>>())));
            return out;
        }
        if snap.log.iter().any(|(_, _, r)| matches!(r, Rec::DispatchFailed { .. })) {
            *armed.entry("quiescent_states_after_replacement".into()).or_insert(0) += 1;
            // service resumes: waiting connections are dispatched to live workers with capacity
            if !pause_pending(snap) {
                let ip = final_inprog(snap);
                let waiting: Vec<usize> = snap.conns.iter().enumerate().filter(|(_, c)| c.phase == Phase::Backlog && !c.eof).map(|(i, _)| i).collect();
                for idx in &a.handles {
                    if let Some(w) = snap.live_worker(*idx) {
                        // in-progress counts are by worker index; connections of the dead predecessor do not count
                        let n = snap.conns.iter().filter(|c| matches!(c.phase, Phase::Serving(s) if s == w.slot)).count() + w.view.as_ref().map_or(0, |v| v.queued);
                        let _ = ip.count(*idx);
                        if n < limit && !waiting.is_empty() && snap.avail(*idx) {
                            out.push(("C08:service-does-not-resume".to_string(), format!("quiescent after a worker replacement: connection(s) {:?} wait although worker {idx} (slot {}) is available with {n} of {limit} in progress", waiting, w.slot)));
                            return out;
                        }
                        if n < limit && !waiting.is_empty() && !snap.avail(*idx) {
                            out.push(("C08:replacement-not-in-rotation".to_string(), format!("quiescent after a worker replacement: connection(s) {:?} wait, worker {idx} (slot {}) has {n} of {limit} in progress but is marked unavailable", waiting, w.slot)));
                            return out;
                        }
                    }
                }
            }
        }
    }
    out
}

// ---------------------------------------------------------------------------------------
// specs
// ---------------------------------------------------------------------------------------

#[derive(Clone)]
struct SpecImpl {
    prop: &'static str,
    cfg: Config,
    bounds: Bounds,
}

impl Spec for SpecImpl {
    fn config(&self) -> Config {
        self.cfg.clone()
    }
    fn bounds(&self) -> Bounds {
        self.bounds.clone()
    }
    fn name(&self) -> String {
        format!(
            "W={} listeners={:?} L={} N={} cmds={} adv={} inj={} kills={} nested={}{}{}{}{}",
            self.cfg.workers,
            self.cfg.listeners.iter().map(explore::lkind_name).collect::<Vec<_>>(),
            self.cfg.limit,
            self.bounds.connects,
            self.bounds.max_cmds,
            self.bounds.max_advances,
            self.bounds.max_injects,
            self.bounds.kills,
            self.bounds.nested,
            if self.bounds.nested_generic > 0 { format!(" generic-nesting={}", self.bounds.nested_generic) } else { String::new() },
            if self.cfg.silent_modes { " silent-readiness-changes" } else { "" },
            if self.cfg.factory_pending > 0 { format!(" factory-pending={}", self.cfg.factory_pending) } else { String::new() },
            format!("{}{}", if self.bounds.conn_panics > 0 { format!(" service-future-panics={}", self.bounds.conn_panics) } else { String::new() }, if self.bounds.call_kills > 0 { format!(" kills-inside-call={}", self.bounds.call_kills) } else { String::new() })
        )
    }
    fn check(&self, snap: &Snap, armed: &mut BTreeMap<String, u64>) -> Vec<(String, String)> {
        match self.prop {
            "C01" => mon_c01_cfg(snap, Some(&self.cfg), armed),
            "C02" => mon_c02(snap, self.cfg.limit, armed),
            "C03" => mon_c03(snap, self.cfg.limit, armed),
            "C04" => mon_c04(snap, self.cfg.workers, self.cfg.limit, armed),
            "C05" => mon_c05(snap, self.cfg.limit, armed),
            "C06" => mon_c06(snap, self.cfg.shutdown_timeout_s, armed),
            "C07" => mon_c07(snap, self.cfg.listeners.len(), armed),
            "C08" => mon_c08(snap, self.cfg.workers, self.cfg.limit, armed),
            _ => vec![],
        }
    }
}

fn cfg(workers: usize, listeners: &[LKind], limit: usize) -> Config {
    Config { workers, listeners: listeners.to_vec(), limit, shutdown_timeout_s: 2, log_ready: false, silent_modes: false, factory_pending: 0 }
}

/// The configurations of a tier. The thorough tier is a superset of the quick one: it starts with
/// every quick configuration (they are small and carry the scenarios that seeded changes and
/// findings asked for) and goes on with its own, deeper ones.
fn all_specs(prop: &'static str, tier: Tier) -> Vec<SpecImpl> {
    let mut v = specs_for(prop, Tier::Quick);
    if tier == Tier::Thorough {
        let mut seen: std::collections::BTreeSet<String> = v.iter().map(|s| format!("{:?} {:?}", s.cfg, s.bounds)).collect();
        for s in specs_for(prop, Tier::Thorough) {
            if seen.insert(format!("{:?} {:?}", s.cfg, s.bounds)) {
                v.push(s);
            }
        }
    }
    v
}

fn specs_for(prop: &'static str, tier: Tier) -> Vec<SpecImpl> {
    use LKind::*;
    let q = tier == Tier::Quick;
    let mut v = vec![];
    let mk = |c: Config, b: Bounds| SpecImpl { prop, cfg: c, bounds: b };
    match prop {
        "C03" => {
            for (w, l, n, nested) in if q { vec![(1, 1, 3, 1), (1, 2, 4, 1), (2, 1, 4, 1)] } else { vec![(1, 1, 4, 2), (1, 2, 5, 2), (1, 3, 5, 1), (1, 4, 6, 1), (2, 1, 4, 2), (2, 2, 5, 1), (3, 1, 5, 1), (3, 2, 6, 0)] } {
                v.push(mk(cfg(w, &[Uds], l), Bounds { connects: n, nested, ..Default::default() }));
            }
            v.push(mk(cfg(1, &[Tcp], 1), Bounds { connects: 3, nested: 1, ..Default::default() }));
            // two listeners: a connection may wait on either of them while the workers are saturated
            v.push(mk(cfg(1, &[Uds, Uds], 1), Bounds { connects: 3, connect_listeners: vec![0, 1], nested: 0, ..Default::default() }));
            // a worker dies and is replaced while another one is saturated: its release must still be noticed
            v.push(mk(cfg(2, &[Uds], 1), Bounds { connects: 3, kills: 1, ..Default::default() }));
            // completions while paused: the notification must not be lost
            v.push(mk(cfg(1, &[Uds], 1), Bounds { connects: 3, cmds: vec![Ev::Pause, Ev::Resume], max_cmds: 2, ..Default::default() }));
            // a listener's back-off ends while every worker is full (filled through the other listener)
            v.push(mk(cfg(1, &[Uds, Uds], 1), Bounds { connects: 3, connect_listeners: vec![0, 1], injects: vec![(0, ErrKind::Emfile)], max_injects: 1, advances: vec![510], max_advances: 1, ..Default::default() }));
            // a connection's service future panics: its slot is released all the same
            v.push(mk(cfg(1, &[Uds], 1), Bounds { connects: 3, conn_panics: 1, ..Default::default() }));
            v.push(mk(cfg(1, &[Uds], 2), Bounds { connects: 4, conn_panics: 2, ..Default::default() }));
            if !q {
                v.push(mk(cfg(2, &[Uds, Tcp], 1), Bounds { connects: 4, connect_listeners: vec![0, 1], nested: 1, ..Default::default() }));
                v.push(mk(cfg(2, &[Uds], 2), Bounds { connects: 4, cmds: vec![Ev::Pause, Ev::Resume], max_cmds: 3, ..Default::default() }));
                v.push(mk(cfg(1, &[Uds, Uds], 2), Bounds { connects: 4, connect_listeners: vec![0, 1], cmds: vec![Ev::Pause, Ev::Resume], max_cmds: 2, ..Default::default() }));
            }
        }
        "C02" => {
            for (w, l, n, nested) in if q { vec![(1, 1, 3, 1), (1, 2, 5, 1), (2, 1, 4, 1), (1, 3, 5, 0)] } else { vec![(1, 1, 4, 2), (1, 2, 5, 2), (1, 3, 6, 1), (1, 4, 6, 1), (2, 1, 5, 2), (2, 2, 6, 1), (3, 1, 5, 1), (3, 2, 7, 0)] } {
                v.push(mk(cfg(w, &[Uds], l), Bounds { connects: n, nested, ..Default::default() }));
            }
            // three workers: the rotation steps over a full worker
            v.push(mk(cfg(3, &[Uds], 1), Bounds { connects: 4, ..Default::default() }));
            // a listener comes back from an accept-error back-off while every worker is full
            v.push(mk(cfg(1, &[Uds, Uds], 1), Bounds { connects: 3, connect_listeners: vec![0, 1], injects: vec![(0, ErrKind::Emfile)], max_injects: 1, advances: vec![510], max_advances: 1, ..Default::default() }));
            // two listeners with waiting clients: capacity freed by one completion is handed out once
            v.push(mk(cfg(1, &[Uds, Uds], 1), Bounds { connects: 3, connect_listeners: vec![0, 1], ..Default::default() }));
            // readiness changes of the service must not make a saturated worker look available
            v.push(mk(cfg(1, &[Uds], 1), Bounds { connects: 3, modes: vec![Mode::Ready, Mode::Pending], max_mode_changes: 2, ..Default::default() }));
            // pause / resume must not make a saturated worker look available
            v.push(mk(cfg(1, &[Uds], 1), Bounds { connects: 3, cmds: vec![Ev::Pause, Ev::Resume], max_cmds: 2, ..Default::default() }));
            v.push(mk(cfg(2, &[Uds], 1), Bounds { connects: 4, cmds: vec![Ev::Pause, Ev::Resume], max_cmds: 2, ..Default::default() }));
            if !q {
                v.push(mk(cfg(1, &[Uds], 2), Bounds { connects: 5, cmds: vec![Ev::Pause, Ev::Resume], max_cmds: 3, ..Default::default() }));
                v.push(mk(cfg(2, &[Uds, Tcp], 2), Bounds { connects: 5, connect_listeners: vec![0, 1], cmds: vec![Ev::Pause, Ev::Resume], max_cmds: 2, ..Default::default() }));
            }
        }
        "C01" => {
            let cmds = vec![Ev::Pause, Ev::Resume, Ev::Stop(true), Ev::Stop(false)];
            if q {
                v.push(mk(cfg(1, &[Tcp], 2), Bounds { connects: 3, cmds: cmds.clone(), max_cmds: 1, nested: 0, ..Default::default() }));
                v.push(mk(cfg(2, &[Tcp, Uds], 1), Bounds { connects: 3, connect_listeners: vec![0, 1], cmds: cmds.clone(), max_cmds: 1, ..Default::default() }));
                v.push(mk(cfg(2, &[Uds, Uds], 2), Bounds { connects: 3, connect_listeners: vec![0, 1], nested: 1, ..Default::default() }));
                // a worker dies: the connection that discovers it must still reach a live worker
                v.push(mk(cfg(2, &[Uds], 1), Bounds { connects: 3, kills: 1, ..Default::default() }));
                // services that are not ready / fail their readiness check: queued connections wait, none is lost
                v.push(mk(cfg(1, &[Uds], 3), Bounds { connects: 2, modes: vec![Mode::Ready, Mode::Pending, Mode::ErrOnce], max_mode_changes: 2, ..Default::default() }));
                // ... also when the worker only finds out because a connection arrives
                v.push(mk(Config { silent_modes: true, ..cfg(1, &[Uds], 3) }, Bounds { connects: 2, modes: vec![Mode::Ready, Mode::Pending, Mode::ErrOnce], max_mode_changes: 2, ..Default::default() }));
                // two faults in sequence (the first repair permutes the handle order)
                v.push(mk(cfg(2, &[Uds], 1), Bounds { connects: 2, kills: 2, completes: false, ..Default::default() }));
                // a service future panics
                v.push(mk(cfg(1, &[Uds], 2), Bounds { connects: 3, conn_panics: 1, ..Default::default() }));
                // the client resets its connection while it waits in a worker's queue: accepted is accepted
                v.push(mk(cfg(1, &[Tcp], 2), Bounds { connects: 2, client_resets: 1, ..Default::default() }));
                // one bind() call with two addresses, then another listener: every connection reaches
                // the service of the listener it was made to
                v.push(mk(cfg(1, &[Tcp, TcpBindSecond, Tcp], 3), Bounds { connects: 3, connect_listeners: vec![0, 1, 2], ..Default::default() }));
                // the accept loop runs while a dying worker is being taken apart
                v.push(mk(cfg(2, &[Uds], 1), Bounds { connects: 3, kills: 1, nested: 1, ..Default::default() }));
            } else {
                v.push(mk(cfg(2, &[Uds], 1), Bounds { connects: 4, kills: 1, ..Default::default() }));
                v.push(mk(cfg(3, &[Uds], 1), Bounds { connects: 4, kills: 1, ..Default::default() }));
                for w in 1..=3 {
                    for ls in [vec![Uds], vec![Tcp, Uds], vec![Uds, Uds]] {
                        for l in 1..=2 {
                            let n_l = ls.len();
                            v.push(mk(cfg(w, &ls, l), Bounds { connects: 4, connect_listeners: (0..n_l).collect(), cmds: cmds.clone(), max_cmds: 2, ..Default::default() }));
                        }
                    }
                }
            }
        }
        "C04" => {
            for (w, l, n) in if q { vec![(2, 2, 4), (3, 1, 4), (3, 2, 5)] } else { vec![(1, 1, 3), (2, 1, 5), (2, 2, 6), (2, 3, 6), (3, 1, 5), (3, 2, 6), (3, 3, 6), (4, 1, 5), (4, 2, 6)] } {
                v.push(mk(cfg(w, &[Uds], l), Bounds { connects: n, ..Default::default() }));
            }
            // rotation after a worker was replaced (handle order changes)
            v.push(mk(cfg(2, &[Uds], 1), Bounds { connects: 4, kills: 1, ..Default::default() }));
            // pause / resume must not hand anything to a saturated worker
            v.push(mk(cfg(2, &[Uds], 1), Bounds { connects: 3, cmds: vec![Ev::Pause, Ev::Resume], max_cmds: 2, ..Default::default() }));
            // three workers, one of the lower ones is replaced: rotation and availability of the others
            v.push(mk(cfg(3, &[Uds], 1), Bounds { connects: if q { 3 } else { 4 }, kills: 1, ..Default::default() }));
            v.push(mk(cfg(3, &[Uds], 4), Bounds { connects: 4, kills: 1, completes: false, ..Default::default() }));
            if !q {
                v.push(mk(cfg(2, &[Uds], 2), Bounds { connects: 5, kills: 1, ..Default::default() }));
            }
        }

        "C05" => {
            let cmds = vec![Ev::Pause, Ev::Resume];
            let inj = |l: usize| vec![(l, ErrKind::Emfile), (l, ErrKind::Aborted), (l, ErrKind::Refused), (l, ErrKind::Reset)];
            if q {
                for k in [Uds, Tcp] {
                    v.push(mk(cfg(1, &[k], 2), Bounds { connects: 2, cmds: cmds.clone(), max_cmds: 3, ..Default::default() }));
                    v.push(mk(cfg(1, &[k], 2), Bounds { connects: 2, injects: inj(0), max_injects: 1, advances: vec![510], max_advances: 2, cmds: cmds.clone(), max_cmds: 1, ..Default::default() }));
                }
                // a saturated worker frees a slot while the server is paused
                v.push(mk(cfg(1, &[Uds], 1), Bounds { connects: 2, cmds: cmds.clone(), max_cmds: 2, ..Default::default() }));
                // back-off overlapping repeated pause/resume
                v.push(mk(cfg(1, &[Uds], 2), Bounds { connects: 2, injects: vec![(0, ErrKind::Emfile)], max_injects: 1, cmds: cmds.clone(), max_cmds: 3, ..Default::default() }));
                // back-off of one listener while the other keeps the accept loop busy; clock in steps below the back-off
                v.push(mk(cfg(1, &[Uds, Uds], 2), Bounds { connects: 2, connect_listeners: vec![0, 1], injects: vec![(0, ErrKind::Emfile)], max_injects: 1, advances: vec![300], max_advances: 3, ..Default::default() }));
                // a back-off ends while the only worker is full
                v.push(mk(cfg(1, &[Uds, Uds], 1), Bounds { connects: 3, connect_listeners: vec![0, 1], injects: vec![(0, ErrKind::Emfile)], max_injects: 1, advances: vec![510], max_advances: 1, ..Default::default() }));
                // overlapping back-offs of two listeners: each comes back at its own deadline
                v.push(mk(cfg(1, &[Uds, Uds], 2), Bounds { connects: 2, connect_listeners: vec![0, 1], injects: vec![(0, ErrKind::Emfile), (1, ErrKind::Emfile)], max_injects: 2, advances: vec![300], max_advances: 3, ..Default::default() }));
            } else {
                let all = |l: usize| vec![(l, ErrKind::Emfile), (l, ErrKind::Enfile), (l, ErrKind::Aborted), (l, ErrKind::Reset), (l, ErrKind::Refused), (l, ErrKind::Interrupted)];
                for k in [Uds, Tcp] {
                    v.push(mk(cfg(1, &[k], 2), Bounds { connects: 3, cmds: vec![Ev::Pause, Ev::Resume, Ev::Stop(true)], max_cmds: 4, ..Default::default() }));
                    v.push(mk(cfg(1, &[k], 2), Bounds { connects: 3, injects: all(0), max_injects: 2, advances: vec![300, 510], max_advances: 3, cmds: cmds.clone(), max_cmds: 2, ..Default::default() }));
                }
                let mut both = all(0);
                both.extend(inj(1));
                v.push(mk(cfg(2, &[Uds, Tcp], 1), Bounds { connects: 3, connect_listeners: vec![0, 1], injects: both, max_injects: 2, advances: vec![510], max_advances: 2, cmds: cmds.clone(), max_cmds: 2, ..Default::default() }));
            }
        }
        "C06" => {
            let stops = vec![Ev::Stop(true), Ev::Stop(false)];
            if q {
                v.push(mk(cfg(1, &[Uds], 2), Bounds { connects: 2, cmds: stops.clone(), max_cmds: 2, advances: vec![1000], max_advances: 4, drop_stop: true, ..Default::default() }));
                v.push(mk(cfg(2, &[Uds], 1), Bounds { connects: 2, cmds: vec![Ev::Stop(true), Ev::Signal(2), Ev::Signal(15)], max_cmds: 1, advances: vec![1000], max_advances: 3, ..Default::default() }));
                // the accept loop exits (closing the workers' channels) before the workers are told to stop
                v.push(mk(cfg(1, &[Uds], 2), Bounds { connects: 1, cmds: vec![Ev::Stop(true)], max_cmds: 1, advances: vec![1000], max_advances: 3, nested: 2, ..Default::default() }));
                // the worker is told to stop while the accept thread has sent a connection but not counted it yet
                v.push(mk(cfg(1, &[Uds], 2), Bounds { connects: 1, cmds: vec![Ev::Stop(true)], max_cmds: 1, advances: vec![1000], max_advances: 3, nested: 3, ..Default::default() }));
                // stop racing new connections and late availability notifications
                v.push(mk(cfg(2, &[Uds], 1), Bounds { connects: 3, cmds: vec![Ev::Stop(true)], max_cmds: 1, advances: vec![1000], max_advances: 1, ..Default::default() }));
                v.push(mk(cfg(1, &[Tcp], 1), Bounds { connects: 2, cmds: vec![Ev::Pause, Ev::Stop(true), Ev::Stop(false)], max_cmds: 2, advances: vec![1000], max_advances: 3, ..Default::default() }));
                // clock steps that are not multiples of the 1 s tick (ticks then fire late)
                v.push(mk(cfg(1, &[Uds], 2), Bounds { connects: 1, cmds: vec![Ev::Stop(true)], max_cmds: 1, advances: vec![700, 1000], max_advances: 4, ..Default::default() }));
                // a stop issued after the server has gone: its future resolves all the same
                v.push(mk(cfg(1, &[Uds], 2), Bounds { connects: 1, cmds: stops.clone(), max_cmds: 2, advances: vec![1000], max_advances: 3, cmds_after_done: true, ..Default::default() }));
                // a tick that is handled more than one period late; extreme timeouts ("wait for ever", 0)
                v.push(mk(Config { shutdown_timeout_s: 6, ..cfg(1, &[Uds], 2) }, Bounds { connects: 1, cmds: vec![Ev::Stop(true)], max_cmds: 1, advances: vec![2200, 1000], max_advances: 3, ..Default::default() }));
                v.push(mk(Config { shutdown_timeout_s: u64::MAX, ..cfg(1, &[Uds], 2) }, Bounds { connects: 1, cmds: vec![Ev::Stop(true)], max_cmds: 1, advances: vec![1000], max_advances: 3, ..Default::default() }));
                v.push(mk(Config { shutdown_timeout_s: 0, ..cfg(1, &[Uds], 2) }, Bounds { connects: 1, cmds: vec![Ev::Stop(true)], max_cmds: 1, advances: vec![1000], max_advances: 2, ..Default::default() }));
            } else {
                let all = vec![Ev::Stop(true), Ev::Stop(false), Ev::Signal(2), Ev::Signal(15), Ev::Signal(3), Ev::Pause];
                v.push(mk(cfg(1, &[Uds], 3), Bounds { connects: 3, cmds: all.clone(), max_cmds: 2, advances: vec![1000], max_advances: 4, drop_stop: true, ..Default::default() }));
                v.push(mk(cfg(2, &[Uds], 2), Bounds { connects: 3, cmds: all.clone(), max_cmds: 2, advances: vec![1000], max_advances: 4, drop_stop: true, ..Default::default() }));
                v.push(mk(Config { shutdown_timeout_s: 1, ..cfg(2, &[Uds], 1) }, Bounds { connects: 3, cmds: stops.clone(), max_cmds: 2, advances: vec![500, 1000], max_advances: 4, nested: 1, ..Default::default() }));
                v.push(mk(cfg(1, &[Tcp], 2), Bounds { connects: 3, cmds: all, max_cmds: 2, advances: vec![1000], max_advances: 4, ..Default::default() }));
                // the quick configuration with signals, one clock step further
                v.push(mk(cfg(2, &[Uds], 1), Bounds { connects: 2, cmds: vec![Ev::Stop(true), Ev::Signal(2), Ev::Signal(15)], max_cmds: 1, advances: vec![1000], max_advances: 4, ..Default::default() }));
            }
        }
        "C07" => {
            let modes = vec![Mode::Ready, Mode::Pending, Mode::ErrOnce];
            let c7 = |n: usize| Config { log_ready: true, ..cfg(1, &vec![Uds; n], 8) };
            // readiness changes the worker only notices when something else wakes it; re-created
            // services whose `new_service` future is not ready at once
            v.push(mk(Config { silent_modes: true, ..c7(1) }, Bounds { connects: 2, modes: modes.clone(), max_mode_changes: 2, ..Default::default() }));
            v.push(mk(Config { factory_pending: 1, ..c7(1) }, Bounds { connects: 2, modes: modes.clone(), max_mode_changes: 2, ..Default::default() }));
            v.push(mk(Config { factory_pending: 2, silent_modes: true, ..c7(2) }, Bounds { connects: 2, connect_listeners: vec![0, 1], modes: vec![Mode::Ready, Mode::ErrOnce], max_mode_changes: 2, ..Default::default() }));
            if q {
                v.push(mk(c7(1), Bounds { connects: 3, modes: modes.clone(), max_mode_changes: 2, ..Default::default() }));
                v.push(mk(c7(2), Bounds { connects: 3, connect_listeners: vec![0, 1], modes: modes.clone(), max_mode_changes: 2, ..Default::default() }));
            } else {
                v.push(mk(c7(1), Bounds { connects: 4, modes: modes.clone(), max_mode_changes: 3, ..Default::default() }));
                v.push(mk(c7(2), Bounds { connects: 4, connect_listeners: vec![0, 1], modes: modes.clone(), max_mode_changes: 3, ..Default::default() }));
                v.push(mk(c7(3), Bounds { connects: 3, connect_listeners: vec![0, 1, 2], modes: modes.clone(), max_mode_changes: 3, ..Default::default() }));
            }
        }
        "C08" => {
            if q {
                v.push(mk(cfg(1, &[Uds], 1), Bounds { connects: 3, kills: 1, ..Default::default() }));
                v.push(mk(cfg(2, &[Uds], 1), Bounds { connects: 3, kills: 1, nested: 1, ..Default::default() }));
                v.push(mk(cfg(2, &[Uds], 2), Bounds { connects: 3, kills: 1, ..Default::default() }));
                // two faults in sequence (handle order is permuted by the first repair)
                v.push(mk(cfg(2, &[Uds], 1), Bounds { connects: 2, kills: 2, completes: false, ..Default::default() }));
                // the worker dies inside `Service::call`, with the connection's guard on the stack
                // (saturated at limit 1): its death must still be discovered
                v.push(mk(cfg(1, &[Uds], 1), Bounds { connects: 3, call_kills: 1, nested: 1, ..Default::default() }));
                v.push(mk(cfg(2, &[Uds], 1), Bounds { connects: 3, call_kills: 1, nested: 1, completes: false, ..Default::default() }));
                // the replacement arrives while the server is paused
                v.push(mk(cfg(1, &[Uds], 1), Bounds { connects: 2, kills: 1, cmds: vec![Ev::Pause, Ev::Resume], max_cmds: 2, completes: false, ..Default::default() }));
            } else {
                for (w, l, n, k, nested) in [(1, 1, 4, 1, 1), (1, 2, 4, 2, 0), (2, 1, 4, 1, 1), (2, 2, 4, 2, 0), (3, 1, 4, 1, 0), (3, 1, 3, 2, 0), (3, 2, 4, 1, 0)] {
                    v.push(mk(cfg(w, &[Uds], l), Bounds { connects: n, kills: k, nested, ..Default::default() }));
                }
                v.push(mk(cfg(2, &[Tcp], 1), Bounds { connects: 3, kills: 1, ..Default::default() }));
            }
        }
        _ => {}
    }
    // generic nesting: at every preemption point every sequence (up to the given length) of
    // internal events of other actors that is enabled at that moment - no candidate lists
    let g = |quick: usize, thorough: usize| if q { quick } else { thorough };
    match prop {
        "C01" => v.push(mk(cfg(2, &[Uds], 1), Bounds { connects: g(2, 3), nested_generic: 2, ..Default::default() })),
        "C02" => v.push(mk(cfg(2, &[Uds], 1), Bounds { connects: 3, nested_generic: g(2, 3), ..Default::default() })),
        "C03" => v.push(mk(cfg(1, &[Uds], 1), Bounds { connects: 3, nested_generic: g(2, 3), ..Default::default() })),
        "C04" => v.push(mk(cfg(2, &[Uds], 1), Bounds { connects: 3, nested_generic: g(2, 3), ..Default::default() })),
        "C05" => v.push(mk(cfg(1, &[Uds], 2), Bounds { connects: 2, cmds: vec![Ev::Pause, Ev::Resume], max_cmds: 2, nested_generic: g(2, 3), ..Default::default() })),
        "C06" => {
            v.push(mk(cfg(1, &[Uds], 2), Bounds { connects: 1, cmds: vec![Ev::Stop(true)], max_cmds: 1, advances: vec![1000], max_advances: 2, nested_generic: 3, ..Default::default() }));
            v.push(mk(cfg(2, &[Uds], 1), Bounds { connects: 2, cmds: vec![Ev::Stop(true), Ev::Stop(false)], max_cmds: 1, advances: vec![1000], max_advances: 2, nested_generic: g(2, 3), ..Default::default() }));
        }
        "C07" => v.push(mk(Config { log_ready: true, ..cfg(1, &[Uds], 8) }, Bounds { connects: 2, modes: vec![Mode::Ready, Mode::Pending, Mode::ErrOnce], max_mode_changes: 1, nested_generic: g(2, 3), ..Default::default() })),
        "C08" => v.push(mk(cfg(2, &[Uds], 1), Bounds { connects: 2, kills: 1, nested_generic: g(2, 3), ..Default::default() })),
        _ => {}
    }
    v
}

/// C04(b): the real 512-bit availability set against `[bool; 512]`, for every initial set in
/// {empty, full, each single bit}, every index and both values; indices >= 512 must panic.
fn availability_differential(rep: &mut Report) -> u64 {
    use actix_server::verif::AvailabilityProbe;
    let mut ops = 0u64;
    let mut bad: Option<String> = None;
    let mut inits: Vec<Option<usize>> = vec![None, Some(usize::MAX)];
    inits.extend((0..512).map(Some));
    let name = |init: Option<usize>| match init {
        None => "empty".to_string(),
        Some(usize::MAX) => "all 512 set".to_string(),
        Some(b) => format!("only bit {b}"),
    };
    'outer: for init in inits {
        for i in 0..512usize {
            for v in [true, false] {
                let mut real = AvailabilityProbe::default();
                let mut model = [false; 512];
                match init {
                    None => {}
                    Some(usize::MAX) => {
                        for j in 0..512 {
                            real.set_available(j, true);
                            model[j] = true;
                        }
                    }
                    Some(b) => {
                        real.set_available(b, true);
                        model[b] = true;
                    }
                }
                real.set_available(i, v);
                model[i] = v;
                ops += 1;
                if real.available() != model.iter().any(|x| *x) {
                    bad = Some(format!("initial set {}, set_available({i}, {v}): available() = {}, reference {}", name(init), real.available(), model.iter().any(|x| *x)));
                    break 'outer;
                }
                for j in 0..512 {
                    if real.get_available(j) != model[j] {
                        bad = Some(format!("initial set {}, set_available({i}, {v}): get_available({j}) = {}, reference {}", name(init), real.get_available(j), model[j]));
                        break 'outer;
                    }
                }
            }
        }
    }
    for idx in [512usize, 513, 1024, usize::MAX] {
        ops += 1;
        let r = mcutil::quiet_catch(|| {
            let mut real = AvailabilityProbe::default();
            real.set_available(idx, true);
            real.get_available(idx)
        });
        if r.is_ok() && bad.is_none() {
            bad = Some(format!("index {idx} is beyond the documented maximum of 512 workers and was accepted"));
        }
    }
    if let Some(msg) = bad {
        rep.violation(Violation { signature: "C04:availability-bitset".into(), summary: format!("availability tracking differs from the [bool; 512] reference: {msg}"), replay: json!({"engine": "srvmc", "kind": "availability-differential", "detail": msg}) });
    }
    rep.set("availability_differential_operations", ops);
    ops
}

pub fn run(args: &Args) -> i32 {
    let prop: &'static str = match args.property.as_str() {
        "C01" => "C01",
        "C02" => "C02",
        "C03" => "C03",
        "C04" => "C04",
        "C05" => "C05",
        "C06" => "C06",
        "C07" => "C07",
        "C08" => "C08",
        other => mcutil::machinery_error(&format!("srvmc does not serve {other}")),
    };
    let mut rep = Report::new(args, "model_checking");
    if let Some(p) = &args.replay {
        return replay(args, prop, p, rep);
    }
    if prop == "C04" {
        availability_differential(&mut rep);
    }
    let mut specs = all_specs(prop, args.tier);
    if let Some(g) = args.opts.get("generic").and_then(|g| g.parse::<usize>().ok()) {
        // experiment switch: generic nesting of this depth on every configuration
        for s in specs.iter_mut() {
            s.bounds.nested_generic = g;
        }
    }
    if let Some(only) = args.opts.get("only").and_then(|g| g.parse::<usize>().ok()) {
        specs = specs.into_iter().enumerate().filter(|(i, _)| *i == only).map(|(_, s)| s).collect();
    }
    let wall_cap = Duration::from_secs(args.opt_usize("wallcap", args.tier.pick(120, 1800)) as u64);
    // a configuration may use whatever is left of the budget except a reserve for those after it
    let reserve = Duration::from_secs(args.tier.pick(3, 60));
    let run_started = std::time::Instant::now();
    let mut total_states = 0;
    let mut total_tr = 0;
    let mut total_exec = 0;
    let mut configs = vec![];
    let mut any_capped = false;
    let mut key_warnings: Vec<String> = vec![];
    for (i, spec) in specs.iter().enumerate() {
        let keycheck = args.opt_usize("keycheck", args.tier.pick(200, 100)) as u64;
        let after = (specs.len() - 1 - i) as u32;
        let per_spec_cap = wall_cap.saturating_sub(run_started.elapsed()).saturating_sub(reserve * after).max(wall_cap / specs.len().max(1) as u32);
        let (stats, found, machinery) = explore::bfs_opt(spec, args.threads, args.seed, per_spec_cap.max(Duration::from_secs(5)), keycheck);
        if !machinery.is_empty() {
            for m in &machinery {
                eprintln!("MACHINERY-ERROR: {m}");
            }
            mcutil::machinery_error(&format!("exploration of config #{i} ({}) hit a machinery error; no verdict", spec.name()));
        }
        key_warnings.extend(stats.key_warnings.iter().cloned());
        total_states += stats.states;
        total_tr += stats.transitions;
        total_exec += stats.executions;
        any_capped |= stats.capped;
        configs.push(json!({
            "config": spec.name(), "states": stats.states, "transitions": stats.transitions, "executions": stats.executions,
            "nested_transitions": stats.nested_transitions, "discarded_nested_plans": stats.invalid_nested, "discarded_because_join_of_a_mid_step_accept_loop_is_not_representable": stats.unrepresentable_joins,
            "quiescent_states": stats.quiescent_states, "max_depth": stats.max_depth, "capped": stats.capped,
            "monitor_armed": stats.armed, "replay_determinism_checks": stats.replay_checks, "key_differential_checks": stats.key_checks, "distinct_dispatch_logs": stats.distinct_dispatch_logs,
        }));
        if let Some(h) = &stats.longest {
            if i == 0 {
                rep.sample(json!({"config": spec.name(), "longest_explored_history": history_json(h)}));
            }
        }
        for f in found {
            rep.violation(Violation {
                signature: f.signature.clone(),
                summary: format!("[{}] {}", spec.name(), f.message),
                replay: json!({"engine": "srvmc", "property": prop, "spec_index": i, "tier": args.tier.name(), "config": spec.name(), "history": history_json(&f.history), "state": f.key_text}),
            });
        }
        println!("  config {:<70} states={} transitions={} executions={} capped={}", spec.name(), stats.states, stats.transitions, stats.executions, stats.capped);
    }
    if !key_warnings.is_empty() {
        for w in &key_warnings {
            eprintln!("KEY-WARNING: {w}");
        }
        if rep.n_violation_kinds() == 0 {
            mcutil::machinery_error("the state key merged states with different futures (see KEY-WARNING above); no verdict");
        }
        rep.set("key_warnings", key_warnings.len());
    }
    // end-to-end conformance layer: the same outcomes on the un-intercepted server (real threads, real time)
    if args.opt_usize("bursts", 1) == 1 {
        run_bursts(prop, args.tier, args.threads, &mut rep);
    }
    if args.opt_usize("e2e", 1) == 1 {
        let mut n_obs = 0;
        let mut names = vec![];
        for r in crate::e2e::scenarios_for(prop) {
            n_obs += r.observations.len();
            names.push(r.name);
            let mm = r.mismatches();
            if !mm.is_empty() {
                rep.violation(Violation {
                    signature: format!("{prop}:e2e:{}", r.name),
                    summary: format!("un-intercepted server (real threads): {}", mm.join("; ")),
                    replay: json!({"engine": "srvmc", "kind": "e2e", "scenario": r.name, "observations": r.observations.iter().map(|(w, e, o)| json!({"what": w, "expected": e, "observed": o})).collect::<Vec<_>>()}),
                });
            }
        }
        rep.set("e2e_traces", names.len());
        rep.set("e2e_observations", n_obs);
        rep.set("e2e_scenarios", serde_json::Value::Array(names.into_iter().map(|n| json!(n)).collect()));
    }
    rep.set("states", total_states);
    rep.set("transitions", total_tr);
    rep.set("executions_of_the_real_server", total_exec);
    rep.set("traces_validated_against_impl", total_tr);
    rep.set("configs", serde_json::Value::Array(configs));
    rep.set("exhaustive", !any_capped);
    rep.set("capped", any_capped);
    rep.set("explanation", "every transition is one execution of the real Server/Accept/ServerWorker code on one thread (hooks on); states are deduplicated by a key read from the real objects and the kernel");
    rep.assume("interleavings at the granularity of turns plus the listed preemption points (DESIGN §4.4, §13); Relaxed atomics argued sequentially consistent");
    rep.finish()
}

fn parse_ev(s: &str) -> Ev {
    let num = |s: &str| -> usize { s.trim_matches(|c: char| !c.is_ascii_digit()).parse().unwrap() };
    if let Some(r) = s.strip_prefix("Connect(") {
        Ev::Connect(num(r))
    } else if let Some(r) = s.strip_prefix("Complete(") {
        Ev::Complete(num(r))
    } else if let Some(r) = s.strip_prefix("Fail(") {
        Ev::Fail(num(r))
    } else if let Some(r) = s.strip_prefix("ClientReset(") {
        Ev::ClientReset(num(r))
    } else if s == "Pause" {
        Ev::Pause
    } else if s == "Resume" {
        Ev::Resume
    } else if s == "Stop(true)" {
        Ev::Stop(true)
    } else if s == "Stop(false)" {
        Ev::Stop(false)
    } else if let Some(r) = s.strip_prefix("Signal(") {
        Ev::Signal(num(r) as i32)
    } else if let Some(r) = s.strip_prefix("DropStop(") {
        Ev::DropStop(num(r))
    } else if let Some(r) = s.strip_prefix("Advance(") {
        Ev::Advance(num(r) as u64)
    } else if let Some(r) = s.strip_prefix("Inject(") {
        let (l, k) = r.trim_end_matches(')').split_once(", ").unwrap();
        let k = match k {
            "Emfile" => ErrKind::Emfile,
            "Enfile" => ErrKind::Enfile,
            "Aborted" => ErrKind::Aborted,
            "Reset" => ErrKind::Reset,
            "Refused" => ErrKind::Refused,
            _ => ErrKind::Interrupted,
        };
        Ev::Inject(l.parse().unwrap(), k)
    } else if let Some(r) = s.strip_prefix("SetReady {") {
        let parts: Vec<&str> = r.trim_end_matches('}').split(',').collect();
        let slot = num(parts[0]);
        let svc = num(parts[1]);
        let mode = match parts[2].split(':').nth(1).unwrap().trim() {
            "Ready" => Mode::Ready,
            "Pending" => Mode::Pending,
            "ErrOnce" => Mode::ErrOnce,
            "PanicInCall" => Mode::PanicInCall,
            _ => Mode::PanicOnce,
        };
        Ev::SetReady { slot, svc, mode }
    } else if let Some(r) = s.strip_prefix("Teardown(") {
        Ev::Teardown(num(r))
    } else if s == "AcceptTurn" {
        Ev::AcceptTurn
    } else if let Some(r) = s.strip_prefix("WorkerTurn(") {
        Ev::WorkerTurn(num(r))
    } else if s == "ServerTurn" {
        Ev::ServerTurn
    } else {
        mcutil::machinery_error(&format!("cannot parse event {s}"))
    }
}

fn parse_history(v: &serde_json::Value) -> Vec<Step> {
    v.as_array()
        .unwrap()
        .iter()
        .map(|s| match s.as_str() {
            Some(e) => (parse_ev(e), None),
            None => {
                let ev = parse_ev(s["event"].as_str().unwrap());
                let at = s["at_point"].as_u64().unwrap() as usize;
                let nested = s["nested"].as_array().unwrap().iter().map(|e| parse_ev(e.as_str().unwrap())).collect();
                (ev, Some((at, nested)))
            }
        })
        .collect()
}

// ---------------------------------------------------------------------------------------
// bursts: one long history per size instead of a search (boundary sizes: per-poll budgets,
// batch limits, backlog lengths that a small-scope search never reaches)
// ---------------------------------------------------------------------------------------

#[derive(Clone, Copy, Debug, PartialEq, Eq)]
enum Burst {
    /// n clients connect before the accept loop runs
    BeforeAccept,
    /// the service is not ready, n clients connect and are queued at the worker, the service becomes ready
    WhileNotReady,
    /// the server is paused, n clients connect, the server is resumed
    WhilePaused,
}

fn burst_sizes(tier: Tier) -> Vec<usize> {
    match tier {
        Tier::Quick => vec![2, 15, 16, 17, 31, 32, 33, 63, 64, 65, 66, 100, 127, 128, 129, 130],
        Tier::Thorough => (1..=140).chain([191, 192, 193, 255, 256, 257, 300]).collect(),
    }
}

/// Runs internal events (accept first, then workers, then the server task) until none is enabled.
fn quiesce(sys: &mut crate::sys::Sys, b: &Bounds, history: &mut Vec<explore::Step>) -> Snap {
    for _ in 0..20_000 {
        let snap = {
            let _g = sys.enter();
            explore::snapshot(sys, b, history)
        };
        match snap.enabled.iter().find(|e| e.is_internal()) {
            Some(ev) => {
                sys.apply(*ev, None);
                history.push((*ev, None));
            }
            None => return snap,
        }
    }
    panic!("burst scenario does not quiesce");
}

fn run_burst(prop: &'static str, kind: Burst, workers: usize, n: usize) -> Vec<(String, String)> {
    let c = Config { log_ready: prop == "C07", ..cfg(workers, &[LKind::Uds], 1024) };
    let b = Bounds { connects: n, ..Default::default() };
    let mut sys = crate::sys::Sys::new(&c);
    let mut h: Vec<explore::Step> = vec![];
    let mut step = |sys: &mut crate::sys::Sys, h: &mut Vec<explore::Step>, ev: Ev| {
        sys.apply(ev, None);
        h.push((ev, None));
    };
    quiesce(&mut sys, &b, &mut h);
    match kind {
        Burst::BeforeAccept => {}
        Burst::WhileNotReady => {
            for slot in 0..workers {
                step(&mut sys, &mut h, Ev::SetReady { slot, svc: 0, mode: Mode::Pending });
            }
            quiesce(&mut sys, &b, &mut h);
        }
        Burst::WhilePaused => {
            step(&mut sys, &mut h, Ev::Pause);
            quiesce(&mut sys, &b, &mut h);
        }
    }
    for _ in 0..n {
        step(&mut sys, &mut h, Ev::Connect(0));
    }
    match kind {
        Burst::BeforeAccept => {}
        Burst::WhileNotReady => {
            quiesce(&mut sys, &b, &mut h);
            for slot in 0..workers {
                step(&mut sys, &mut h, Ev::SetReady { slot, svc: 0, mode: Mode::Ready });
            }
        }
        Burst::WhilePaused => step(&mut sys, &mut h, Ev::Resume),
    }
    let snap = quiesce(&mut sys, &b, &mut h);
    drop(sys);
    let mut armed = BTreeMap::new();
    let mut out = match prop {
        "C01" => mon_c01(&snap, &mut armed),
        "C03" => mon_c03(&snap, 1024, &mut armed),
        "C05" => mon_c05(&snap, 1024, &mut armed),
        "C07" => {
            let mut v = mon_c07(&snap, 1, &mut armed);
            // "queued connections ... are served once readiness returns"
            v.extend(mon_c01(&snap, &mut armed).into_iter().filter(|(s, _)| s.ends_with("queued-connection-never-served")).map(|(_, m)| ("C07:queued-connections-not-served-once-ready".to_string(), m)));
            v
        }
        _ => vec![],
    };
    // every connection of the burst has reached its service by now
    let served = snap.conns.iter().filter(|c| c.calls == 1).count();
    if out.is_empty() && served != n {
        out.push((format!("{prop}:burst-not-fully-served"), format!("{served} of {n} connections reached their service; phases of the others: {:?}", snap.conns.iter().filter(|c| c.calls != 1).map(|c| format!("{:?}", c.phase)).take(5).collect::<Vec<_>>())));
    }
    out.into_iter().map(|(sig, msg)| (format!("{sig}:burst"), format!("burst of {n} connections ({:?}, {workers} worker(s), no limit in reach): {msg}", kind))).collect()
}

fn bursts_for(prop: &'static str) -> Vec<Burst> {
    match prop {
        "C01" => vec![Burst::BeforeAccept, Burst::WhileNotReady, Burst::WhilePaused],
        "C03" => vec![Burst::BeforeAccept, Burst::WhilePaused],
        "C05" => vec![Burst::WhilePaused],
        "C07" => vec![Burst::WhileNotReady],
        _ => vec![],
    }
}

fn run_bursts(prop: &'static str, tier: Tier, threads: usize, rep: &mut Report) {
    let kinds = bursts_for(prop);
    if kinds.is_empty() {
        return;
    }
    let mut work = vec![];
    for k in &kinds {
        for w in [1usize, 2] {
            for n in burst_sizes(tier) {
                work.push((*k, w, n));
            }
        }
    }
    let results = mcutil::par_map(threads, &work, |_, (k, w, n)| mcutil::quiet_catch(|| run_burst(prop, *k, *w, *n)));
    let mut bag = mcutil::VioBag::default();
    for ((k, w, n), r) in work.iter().zip(results) {
        let replay = json!({"engine": "srvmc", "kind": "burst", "burst": format!("{:?}", k), "workers": w, "n": n});
        match r {
            Ok(v) => {
                for (sig, msg) in v {
                    bag.add(&sig.clone(), || Violation { signature: sig.clone(), summary: msg.clone(), replay: replay.clone() });
                }
            }
            Err(p) => mcutil::machinery_error(&format!("burst scenario {:?} w={w} n={n} panicked: {}", k, mcutil::panic_message(&*p))),
        }
    }
    bag.drain_into(rep);
    rep.set("burst_scenarios", work.len());
    rep.set("burst_largest", burst_sizes(tier).into_iter().max().unwrap_or(0));
}

fn replay(args: &Args, prop: &'static str, path: &std::path::Path, mut rep: Report) -> i32 {
    let r = mcutil::load_replay(path);
    if r["kind"] == "e2e" {
        for res in crate::e2e::scenarios_for(prop) {
            for (w, e, o) in &res.observations {
                println!("  [{}] {w}: expected {e}, observed {o}", res.name);
            }
            let mm = res.mismatches();
            if !mm.is_empty() {
                rep.violation(Violation { signature: format!("{prop}:e2e:{}", res.name), summary: mm.join("; "), replay: r.clone() });
            }
        }
        return rep.finish();
    }
    if r["kind"] == "burst" {
        let kind = match r["burst"].as_str().unwrap() { "BeforeAccept" => Burst::BeforeAccept, "WhileNotReady" => Burst::WhileNotReady, _ => Burst::WhilePaused };
        let v = run_burst(prop, kind, r["workers"].as_u64().unwrap() as usize, r["n"].as_u64().unwrap() as usize);
        println!("replay verdict: {}", if v.is_empty() { "holds".to_string() } else { format!("violates: {:?}", v) });
        for (sig, msg) in v {
            rep.violation(Violation { signature: sig, summary: msg, replay: r.clone() });
        }
        return rep.finish();
    }
    if r["kind"] == "availability-differential" {
        availability_differential(&mut rep);
        return rep.finish();
    }
    let tier = if r["tier"] == "thorough" { Tier::Thorough } else { Tier::Quick };
    let specs = all_specs(prop, tier);
    let spec = &specs[r["spec_index"].as_u64().unwrap() as usize];
    let history = parse_history(&r["history"]);
    println!("config {}", spec.name());
    let mut keys = vec![];
    for round in 0..2 {
        let snap = explore::run(&spec.cfg, &spec.bounds, &history);
        if round == 0 {
            for (step, nested, rec) in &snap.log {
                println!("  step {step}{} {:?}", if *nested { " (nested)" } else { "" }, rec);
            }
            println!("final state: {}", snap.key_text);
            let mut armed = BTreeMap::new();
            let v = spec.check(&snap, &mut armed);
            println!("replay verdict: {}", if v.is_empty() { "holds".to_string() } else { format!("violates: {:?}", v) });
            for (sig, msg) in v {
                rep.violation(Violation { signature: sig, summary: msg, replay: r.clone() });
            }
        }
        keys.push(snap.key);
    }
    if keys[0] != keys[1] {
        mcutil::machinery_error("replay is not deterministic (two runs of the same history differ)");
    }
    let _ = args;
    rep.finish()
}
