//! End-to-end conformance layer (DESIGN §4.9): a few scenarios, chosen from the outcomes the
//! in-thread exploration distinguishes, run against the **un-intercepted** server - real accept
//! thread, real worker threads, real time - through the public API only. Positive expectations
//! get long time-outs (10 s), negative ones short windows (300 ms), so a slow machine can never
//! turn a correct server into an alarm. Signals are exercised on a child process.

use std::{
    collections::BTreeMap,
    io::{Read, Write},
    sync::{
        atomic::{AtomicBool, AtomicUsize, Ordering},
        mpsc, Arc, Mutex,
    },
    task::{Context, Poll},
    thread::ThreadId,
    time::{Duration, Instant},
};

use actix_rt::net::UnixStream;
use actix_server::{Server, ServerHandle};
use actix_service::{fn_factory, Service};
use futures_core::future::LocalBoxFuture;
use tokio::io::{AsyncReadExt, AsyncWriteExt};

const POS: Duration = Duration::from_secs(10);
const NEG: Duration = Duration::from_millis(300);

#[derive(Default)]
struct Shared {
    /// (connection id, listener name, worker thread, factory instance)
    calls: Mutex<Vec<(u8, &'static str, ThreadId, usize)>>,
    release: Mutex<BTreeMap<u8, tokio::sync::oneshot::Sender<()>>>,
    instances: AtomicUsize,
    not_ready: AtomicBool,
    panic_next_ready: AtomicBool,
    ready_wakers: Mutex<Vec<std::task::Waker>>,
}

struct Svc {
    name: &'static str,
    instance: usize,
    sh: Arc<Shared>,
}

impl<Io: tokio::io::AsyncRead + tokio::io::AsyncWrite + Unpin + 'static> Service<Io> for Svc {
    type Response = ();
    type Error = ();
    type Future = LocalBoxFuture<'static, Result<(), ()>>;

    fn poll_ready(&self, cx: &mut Context<'_>) -> Poll<Result<(), ()>> {
        if self.sh.panic_next_ready.swap(false, Ordering::SeqCst) {
            panic!("service readiness check panics (expected-by-harness)");
        }
        if self.sh.not_ready.load(Ordering::SeqCst) {
            self.sh.ready_wakers.lock().unwrap().push(cx.waker().clone());
            return Poll::Pending;
        }
        Poll::Ready(Ok(()))
    }

    fn call(&self, mut io: Io) -> Self::Future {
        let (sh, name, instance) = (self.sh.clone(), self.name, self.instance);
        Box::pin(async move {
            let mut id = [0u8; 1];
            io.read_exact(&mut id).await.map_err(|_| ())?;
            let (tx, rx) = tokio::sync::oneshot::channel();
            sh.release.lock().unwrap().insert(id[0], tx);
            sh.calls.lock().unwrap().push((id[0], name, std::thread::current().id(), instance));
            let _ = io.write_all(b"S").await;
            let _ = rx.await;
            let _ = io.write_all(b"D").await;
            Ok(())
        })
    }
}

enum Client {
    Tcp(std::net::TcpStream),
    Uds(std::os::unix::net::UnixStream),
}

impl Client {
    fn read_byte(&mut self, within: Duration) -> Option<u8> {
        let mut b = [0u8; 1];
        let r = match self {
            Client::Tcp(s) => {
                s.set_read_timeout(Some(within)).ok()?;
                s.read(&mut b)
            }
            Client::Uds(s) => {
                s.set_read_timeout(Some(within)).ok()?;
                s.read(&mut b)
            }
        };
        match r {
            Ok(1) => Some(b[0]),
            Ok(_) => Some(0), // EOF
            // the server side was dropped with our byte unread: the connection is closed as well
            Err(e) if matches!(e.kind(), std::io::ErrorKind::ConnectionReset | std::io::ErrorKind::BrokenPipe) => Some(0),
            Err(_) => None,
        }
    }
}

pub struct World {
    sh: Arc<Shared>,
    handle: ServerHandle,
    done: mpsc::Receiver<bool>,
    tcp: Vec<std::net::SocketAddr>,
    uds: Vec<std::path::PathBuf>,
    next_id: u8,
    clients: BTreeMap<u8, Client>,
}

#[derive(Clone, Copy, PartialEq, Eq, Debug)]
pub enum RtKind {
    Tokio,
    ActixSystem,
}

impl World {
    /// listeners: ("name", is_uds)
    pub fn start(rt: RtKind, workers: usize, limit: usize, timeout_s: u64, listeners: &[(&'static str, bool)]) -> World {
        let sh: Arc<Shared> = Arc::new(Shared::default());
        let (htx, hrx) = mpsc::channel();
        let (dtx, drx) = mpsc::channel();
        let mut tcp = vec![];
        let mut uds = vec![];
        let mut bound: Vec<(&'static str, Option<std::net::TcpListener>, Option<std::os::unix::net::UnixListener>)> = vec![];
        static N: AtomicUsize = AtomicUsize::new(0);
        for (name, is_uds) in listeners {
            if *is_uds {
                let p = std::path::PathBuf::from(format!("/tmp/srvmc-e2e-{}-{}.sock", std::process::id(), N.fetch_add(1, Ordering::SeqCst)));
                let _ = std::fs::remove_file(&p);
                bound.push((name, None, Some(std::os::unix::net::UnixListener::bind(&p).unwrap())));
                uds.push(p);
            } else {
                let l = std::net::TcpListener::bind(format!("127.89.{}.250:0", std::process::id() % 250 + 1)).or_else(|_| std::net::TcpListener::bind("127.0.0.1:0")).unwrap();
                tcp.push(l.local_addr().unwrap());
                bound.push((name, Some(l), None));
            }
        }
        let sh2 = sh.clone();
        std::thread::Builder::new()
            .name("e2e-server".into())
            .spawn(move || {
                let run = async move {
                    let mut b = Server::build().workers(workers).max_concurrent_connections(limit).shutdown_timeout(timeout_s).disable_signals();
                    for (name, t, u) in bound {
                        let sh3 = sh2.clone();
                        if let Some(l) = t {
                            b = b
                                .listen(name, l, move || {
                                    let sh4 = sh3.clone();
                                    fn_factory(move || {
                                        let sh5 = sh4.clone();
                                        async move { Ok::<_, ()>(Svc { name, instance: sh5.instances.fetch_add(1, Ordering::SeqCst) + 1, sh: sh5 }) }
                                    })
                                })
                                .unwrap();
                        } else if let Some(l) = u {
                            b = b
                                .listen_uds(name, l, move || {
                                    let sh4 = sh3.clone();
                                    fn_factory(move || {
                                        let sh5 = sh4.clone();
                                        async move { Ok::<_, ()>(Svc { name, instance: sh5.instances.fetch_add(1, Ordering::SeqCst) + 1, sh: sh5 }) }
                                    })
                                })
                                .unwrap();
                        }
                    }
                    let srv = b.run();
                    let _ = htx.send(srv.handle());
                    let r = srv.await;
                    let _ = dtx.send(r.is_ok());
                };
                match rt {
                    RtKind::Tokio => tokio::runtime::Builder::new_current_thread().enable_all().build().unwrap().block_on(run),
                    RtKind::ActixSystem => actix_rt::System::new().block_on(run),
                }
            })
            .unwrap();
        let handle = hrx.recv_timeout(POS).expect("server did not start");
        World { sh, handle, done: drx, tcp, uds, next_id: 1, clients: BTreeMap::new() }
    }

    /// Connects a client to listener `l` (index among the TCP or UDS listeners); Err = OS-level failure.
    pub fn connect(&mut self, uds: bool, l: usize) -> Result<u8, String> {
        let id = self.next_id;
        self.next_id += 1;
        let c = if uds {
            let mut s = std::os::unix::net::UnixStream::connect(&self.uds[l]).map_err(|e| format!("{:?}", e.kind()))?;
            // the server may already have closed the connection (e.g. it sat in the queue of a worker
            // that died): the client is connected all the same and will read end-of-stream
            match s.write_all(&[id]) {
                Ok(()) => {}
                Err(e) if matches!(e.kind(), std::io::ErrorKind::BrokenPipe | std::io::ErrorKind::ConnectionReset) => {}
                Err(e) => return Err(e.to_string()),
            }
            Client::Uds(s)
        } else {
            let mut s = std::net::TcpStream::connect(self.tcp[l]).map_err(|e| format!("{:?}", e.kind()))?;
            match s.write_all(&[id]) {
                Ok(()) => {}
                Err(e) if matches!(e.kind(), std::io::ErrorKind::BrokenPipe | std::io::ErrorKind::ConnectionReset) => {}
                Err(e) => return Err(e.to_string()),
            }
            Client::Tcp(s)
        };
        self.clients.insert(id, c);
        Ok(id)
    }

    /// `connect`, but a refused / failed connect is an observation, not a crash of the harness:
    /// it is noted (and reported as a mismatch of the scenario) and a client id that is never
    /// served is returned.
    pub fn connect_x(&mut self, uds: bool, l: usize) -> u8 {
        match self.connect(uds, l) {
            Ok(id) => id,
            Err(e) => {
                CONNECT_FAILURES.lock().unwrap().push(format!("listener {l}: {e}"));
                255
            }
        }
    }

    /// Does the client get the "S" (its service call has started) within `within`?
    pub fn served(&mut self, id: u8, within: Duration) -> bool {
        self.clients.get_mut(&id).and_then(|c| c.read_byte(within)) == Some(b'S')
    }

    pub fn closed_by_server(&mut self, id: u8, within: Duration) -> bool {
        self.clients.get_mut(&id).and_then(|c| c.read_byte(within)) == Some(0)
    }

    pub fn release(&mut self, id: u8) {
        if let Some(tx) = self.sh.release.lock().unwrap().remove(&id) {
            let _ = tx.send(());
        }
    }

    pub fn call_of(&self, id: u8) -> Option<(&'static str, ThreadId, usize)> {
        self.sh.calls.lock().unwrap().iter().find(|c| c.0 == id).map(|c| (c.1, c.2, c.3))
    }

    pub fn calls_for(&self, id: u8) -> usize {
        self.sh.calls.lock().unwrap().iter().filter(|c| c.0 == id).count()
    }

    fn wait_cmd(&self, f: impl std::future::Future<Output = ()> + Send + 'static, within: Duration) -> bool {
        let (tx, rx) = mpsc::channel();
        std::thread::spawn(move || {
            tokio::runtime::Builder::new_current_thread().build().unwrap().block_on(f);
            let _ = tx.send(());
        });
        rx.recv_timeout(within).is_ok()
    }

    pub fn pause(&self) -> bool {
        self.wait_cmd(self.handle.pause(), POS)
    }
    pub fn resume(&self) -> bool {
        self.wait_cmd(self.handle.resume(), POS)
    }
    /// issues stop and returns a receiver that fires when the stop future resolves
    pub fn stop(&self, graceful: bool) -> mpsc::Receiver<()> {
        let f = self.handle.stop(graceful);
        let (tx, rx) = mpsc::channel();
        std::thread::spawn(move || {
            tokio::runtime::Builder::new_current_thread().build().unwrap().block_on(f);
            let _ = tx.send(());
        });
        rx
    }
    pub fn server_done(&self, within: Duration) -> Option<bool> {
        self.done.recv_timeout(within).ok()
    }
    pub fn set_not_ready(&self, v: bool) {
        self.sh.not_ready.store(v, Ordering::SeqCst);
        if !v {
            for w in self.sh.ready_wakers.lock().unwrap().drain(..) {
                w.wake();
            }
        }
    }
    pub fn panic_next_readiness_check(&self) {
        self.sh.panic_next_ready.store(true, Ordering::SeqCst);
    }
    pub fn instances(&self) -> usize {
        self.sh.instances.load(Ordering::SeqCst)
    }
    pub fn shutdown(self) {
        let rx = self.stop(false);
        let _ = rx.recv_timeout(POS);
        for p in &self.uds {
            let _ = std::fs::remove_file(p);
        }
    }
}

static CONNECT_FAILURES: std::sync::Mutex<Vec<String>> = std::sync::Mutex::new(Vec::new());

pub struct E2eResult {
    pub name: &'static str,
    pub observations: Vec<(String, bool, bool)>, // (what, expected, observed)
}

impl E2eResult {
    pub fn mismatches(&self) -> Vec<String> {
        self.observations.iter().filter(|(_, e, o)| e != o).map(|(w, e, o)| format!("{}: {w}: expected {e}, observed {o}", self.name)).collect()
    }
}

fn obs(v: &mut Vec<(String, bool, bool)>, what: &str, expected: bool, observed: bool) {
    v.push((what.to_string(), expected, observed));
}

/// C02 / C03: saturate a worker, the next client waits; release one, it is served.
pub fn backpressure(rt: RtKind, limit: usize, uds: bool) -> E2eResult {
    let mut w = World::start(rt, 1, limit, 2, &[("a", uds)]);
    let mut o = vec![];
    let mut held = vec![];
    for _ in 0..limit {
        let c = w.connect_x(uds, 0);
        obs(&mut o, &format!("connection {c} (within the limit) is served"), true, w.served(c, POS));
        held.push(c);
    }
    let extra = w.connect_x(uds, 0);
    obs(&mut o, "connection beyond the limit is served while the worker is saturated", false, w.served(extra, NEG));
    w.release(held[0]);
    obs(&mut o, "waiting connection is served after one connection finished", true, w.served(extra, POS));
    obs(&mut o, "every connection reached exactly one service call", true, (1..=extra).all(|c| w.calls_for(c) == 1));
    for c in held {
        w.release(c);
    }
    w.release(extra);
    w.shutdown();
    E2eResult { name: "backpressure", observations: o }
}

/// C04 / C01: two workers, two listeners: consecutive connections go to distinct workers, each to its listener's service.
pub fn round_robin_and_routing(rt: RtKind) -> E2eResult {
    let mut w = World::start(rt, 2, 4, 2, &[("tcp-svc", false), ("uds-svc", true)]);
    let mut o = vec![];
    let mut ids = vec![];
    for (i, uds) in [false, true, false, true].into_iter().enumerate() {
        let c = w.connect_x(uds, 0);
        obs(&mut o, &format!("connection #{i} is served"), true, w.served(c, POS));
        ids.push((c, uds));
    }
    let calls: Vec<_> = ids.iter().map(|(c, _)| w.call_of(*c)).collect();
    obs(&mut o, "each connection is handled by its own listener's service", true, ids.iter().zip(&calls).all(|((_, uds), call)| call.map(|c| c.0) == Some(if *uds { "uds-svc" } else { "tcp-svc" })));
    obs(&mut o, "consecutive connections go to distinct workers", true, calls.windows(2).all(|p| p[0].map(|c| c.1) != p[1].map(|c| c.1)));
    for (c, _) in ids {
        w.release(c);
    }
    w.shutdown();
    E2eResult { name: "round-robin-and-routing", observations: o }
}

/// C05: pause / resume on a listener kind; the listener stays reachable and accepts again.
pub fn pause_resume(rt: RtKind, uds: bool) -> E2eResult {
    let mut w = World::start(rt, 1, 4, 2, &[("a", uds)]);
    let mut o = vec![];
    obs(&mut o, "pause acknowledged", true, w.pause());
    std::thread::sleep(Duration::from_millis(150));
    match w.connect(uds, 0) {
        Ok(c) => {
            obs(&mut o, "client can connect at the OS level while paused", true, true);
            obs(&mut o, "connection made during the pause is served before resume", false, w.served(c, NEG));
            obs(&mut o, "resume acknowledged", true, w.resume());
            obs(&mut o, "connection made during the pause is served after resume", true, w.served(c, POS));
            w.release(c);
        }
        Err(e) => obs(&mut o, &format!("client can connect at the OS level while paused ({e})"), true, false),
    }
    match w.connect(uds, 0) {
        Ok(c) => {
            obs(&mut o, "a new client is served after resume", true, w.served(c, POS));
            w.release(c);
        }
        Err(e) => obs(&mut o, &format!("a new client can connect after resume ({e})"), true, false),
    }
    w.shutdown();
    E2eResult { name: if uds { "pause-resume-uds" } else { "pause-resume-tcp" }, observations: o }
}

/// C06: graceful stop waits for the held connection; forced stop does not.
pub fn shutdown(rt: RtKind, graceful: bool) -> E2eResult {
    let mut w = World::start(rt, 2, 4, 30, &[("a", true)]);
    let mut o = vec![];
    let c = w.connect_x(true, 0);
    obs(&mut o, "connection is served", true, w.served(c, POS));
    let stop = w.stop(graceful);
    if graceful {
        obs(&mut o, "graceful stop resolves while a connection is still being served", false, stop.recv_timeout(Duration::from_millis(1500)).is_ok());
        w.release(c);
        obs(&mut o, "the connection finishes normally (client reads its last byte)", true, w.clients.get_mut(&c).and_then(|c| c.read_byte(POS)) == Some(b'D'));
        obs(&mut o, "graceful stop resolves after the connection finished", true, stop.recv_timeout(POS).is_ok());
    } else {
        obs(&mut o, "forced stop resolves without waiting for the connection", true, stop.recv_timeout(Duration::from_secs(5)).is_ok());
    }
    obs(&mut o, "the Server future resolves with Ok", true, w.server_done(POS) == Some(true));
    for p in &w.uds {
        let _ = std::fs::remove_file(p);
    }
    E2eResult { name: if graceful { "graceful-stop" } else { "forced-stop" }, observations: o }
}

/// C07: connections wait while the service is not ready and are served when it is.
pub fn readiness(rt: RtKind) -> E2eResult {
    let mut w = World::start(rt, 1, 8, 2, &[("a", true)]);
    let mut o = vec![];
    let c0 = w.connect_x(true, 0);
    obs(&mut o, "first connection is served", true, w.served(c0, POS));
    w.set_not_ready(true);
    // the worker re-checks readiness before the next connection
    let c1 = w.connect_x(true, 0);
    let c2 = w.connect_x(true, 0);
    obs(&mut o, "connection is served while the service reports not ready", false, w.served(c1, NEG));
    w.set_not_ready(false);
    obs(&mut o, "first waiting connection is served once the service is ready", true, w.served(c1, POS));
    obs(&mut o, "second waiting connection is served too", true, w.served(c2, POS));
    let order: Vec<u8> = w.sh.calls.lock().unwrap().iter().map(|c| c.0).collect();
    obs(&mut o, "waiting connections are served in arrival order", true, order == vec![c0, c1, c2]);
    for c in [c0, c1, c2] {
        w.release(c);
    }
    w.shutdown();
    E2eResult { name: "readiness", observations: o }
}

/// C08: a worker dies (its service panics inside the worker's poll), is replaced, service resumes.
pub fn worker_fault(rt: RtKind, workers: usize) -> E2eResult {
    mcutil::ALL_QUIET.store(true, Ordering::SeqCst);
    let r = worker_fault_inner(rt, workers);
    mcutil::ALL_QUIET.store(false, Ordering::SeqCst);
    r
}

fn worker_fault_inner(rt: RtKind, workers: usize) -> E2eResult {
    let mut w = World::start(rt, workers, 4, 2, &[("a", true)]);
    let mut o = vec![];
    let c0 = w.connect_x(true, 0);
    obs(&mut o, "connection before the fault is served", true, w.served(c0, POS));
    w.release(c0);
    let before = w.instances();
    w.panic_next_readiness_check();
    // the next connections make a worker poll (one dies), the accept loop discovers it on a later send
    let mut all = true;
    for _ in 0..(2 * workers + 2) {
        let c = w.connect_x(true, 0);
        let ok = w.served(c, POS) || {
            // the connection that was in the dead worker's queue is lost with it; a closed socket is acceptable for it
            w.closed_by_server(c, Duration::from_millis(10))
        };
        all &= ok;
        w.release(c);
    }
    obs(&mut o, "connections after the fault are served (or, if they sat in the dead worker's queue, closed)", true, all);
    let t0 = Instant::now();
    while w.instances() <= before && t0.elapsed() < POS {
        let c = w.connect_x(true, 0);
        let _ = w.served(c, Duration::from_millis(500));
        w.release(c);
    }
    obs(&mut o, "a replacement worker created its service from the factory", true, w.instances() > before);
    let c = w.connect_x(true, 0);
    obs(&mut o, "service continues after the replacement", true, w.served(c, POS));
    w.release(c);
    w.shutdown();
    E2eResult { name: if workers == 1 { "worker-fault-single" } else { "worker-fault" }, observations: o }
}

// ---- signals on a child process ----------------------------------------------------------

/// Entry point of the child: a real server with signal handling on, one UDS listener; prints
/// READY, then the exit line when the Server future resolves.
pub fn child_main(path: &str) -> ! {
    let path = path.to_string();
    if std::env::var_os("VERIF_E2E_DEBUG").is_some() {
        let _ = tracing_subscriber::fmt().with_max_level(tracing::Level::TRACE).with_writer(std::io::stderr).try_init();
    }
    let r = actix_rt::System::new().block_on(async move {
        let _ = std::fs::remove_file(&path);
        let srv = Server::build()
            .workers(1)
            .shutdown_timeout(3)
            .bind_uds("sig", &path, || {
                fn_factory(|| async {
                    Ok::<_, ()>(actix_service::fn_service(|mut io: UnixStream| async move {
                        let mut b = [0u8; 1];
                        let _ = io.write_all(b"S").await;
                        // held until the client closes
                        let r = io.read(&mut b).await;
                        if std::env::var_os("VERIF_E2E_DEBUG").is_some() {
                            eprintln!("child: service read returned {:?}", r);
                        }
                        Ok::<_, ()>(())
                    }))
                })
            })
            .unwrap()
            .run();
        // the signal handlers are installed by the first poll of the Server future
        let task = actix_rt::spawn(srv);
        for _ in 0..5 {
            tokio::task::yield_now().await;
        }
        println!("READY");
        task.await.unwrap()
    });
    println!("SERVER-FUTURE {}", if r.is_ok() { "ok" } else { "err" });
    std::process::exit(0)
}

pub fn signals() -> E2eResult {
    let mut o = vec![];
    let exe = std::env::current_exe().unwrap();
    for (sig, name, graceful) in [(libc::SIGINT, "SIGINT", false), (libc::SIGQUIT, "SIGQUIT", false), (libc::SIGTERM, "SIGTERM", true)] {
        for held in [false, true] {
            let path = format!("/tmp/srvmc-sig-{}-{}-{}.sock", std::process::id(), name, held);
            let mut child = std::process::Command::new(&exe).arg("--child-signal").arg(&path).stdout(std::process::Stdio::piped()).spawn().expect("spawn child");
            let mut out = std::io::BufReader::new(child.stdout.take().unwrap());
            let mut line = String::new();
            use std::io::BufRead;
            let _ = out.read_line(&mut line);
            let mut client = None;
            if held {
                let t0 = Instant::now();
                while client.is_none() && t0.elapsed() < POS {
                    if let Ok(mut s) = std::os::unix::net::UnixStream::connect(&path) {
                        let mut b = [0u8; 1];
                        s.set_read_timeout(Some(POS)).unwrap();
                        if s.read(&mut b).ok() == Some(1) {
                            client = Some(s);
                        }
                    } else {
                        std::thread::sleep(Duration::from_millis(20));
                    }
                }
            }
            unsafe { libc::kill(child.id() as i32, sig) };
            let t0 = Instant::now();
            let exited_within = |child: &mut std::process::Child, d: Duration| -> bool {
                let t = Instant::now();
                while t.elapsed() < d {
                    if let Ok(Some(_)) = child.try_wait() {
                        return true;
                    }
                    std::thread::sleep(Duration::from_millis(10));
                }
                false
            };
            if graceful && held {
                obs(&mut o, &format!("{name} with a connection in progress: the process exits within 1.2 s"), false, exited_within(&mut child, Duration::from_millis(1200)));
                drop(client.take());
                obs(&mut o, &format!("{name}: the process exits after the connection finished"), true, exited_within(&mut child, POS));
            } else {
                // the child's shutdown_timeout is 3 s: a forced stop is well below that, a graceful one with a held
                // connection is not (the latter is the other branch)
                let limit = if held { Duration::from_millis(1800) } else { Duration::from_secs(5) };
                obs(&mut o, &format!("{name} (connection in progress: {held}): the process exits without waiting"), true, exited_within(&mut child, limit));
                let _ = t0;
            }
            let _ = child.kill();
            let _ = child.wait();
            let mut rest = String::new();
            let _ = out.read_to_string(&mut rest);
            obs(&mut o, &format!("{name} (held {held}): the Server future resolved before the process ended"), true, rest.contains("SERVER-FUTURE ok"));
            let _ = std::fs::remove_file(&path);
        }
    }
    E2eResult { name: "signals", observations: o }
}

pub fn scenarios_for(prop: &str) -> Vec<E2eResult> {
    let mut v = scenarios_for_inner(prop);
    let failures: Vec<String> = std::mem::take(&mut *CONNECT_FAILURES.lock().unwrap());
    if let Some(last) = v.last_mut() {
        last.observations.push((format!("every client connect succeeded while the server was running{}", if failures.is_empty() { String::new() } else { format!(" (failed: {:?})", failures) }), true, failures.is_empty()));
    }
    v
}

fn scenarios_for_inner(prop: &str) -> Vec<E2eResult> {
    match prop {
        "C01" => vec![round_robin_and_routing(RtKind::Tokio)],
        "C02" => vec![backpressure(RtKind::Tokio, 2, true)],
        "C03" => vec![backpressure(RtKind::Tokio, 1, true), backpressure(RtKind::ActixSystem, 1, false)],
        "C04" => vec![round_robin_and_routing(RtKind::ActixSystem)],
        "C05" => vec![pause_resume(RtKind::Tokio, true), pause_resume(RtKind::Tokio, false)],
        "C06" => vec![shutdown(RtKind::Tokio, true), shutdown(RtKind::ActixSystem, false), signals()],
        "C07" => vec![readiness(RtKind::Tokio)],
        "C08" => vec![worker_fault(RtKind::ActixSystem, 2), worker_fault(RtKind::Tokio, 1)],
        _ => vec![],
    }
}
