//! Shared plumbing of the /verif engines: command line, evidence files, replay files,
//! known-findings matching, counting wakers, a tiny work-queue parallel map.
//!
//! Exit codes (DESIGN §11): 0 = property held on everything explored (known findings are
//! printed as `KNOWN-FINDING:` lines), 1 = at least one unlisted violation (one
//! `VIOLATION property=<id> replay=<path>` line each), 2 = machinery error (no verdict).

use std::{
    collections::BTreeMap,
    path::{Path, PathBuf},
    sync::{
        atomic::{AtomicUsize, Ordering},
        Arc, Mutex,
    },
    task::{Wake, Waker},
    time::Instant,
};

pub use serde_json::{json, Map, Value};

pub const VERIF_ROOT: &str = "/verif";

// ---------------------------------------------------------------------------------------
// command line
// ---------------------------------------------------------------------------------------

#[derive(Debug, Clone, Copy, PartialEq, Eq)]
pub enum Tier {
    Quick,
    Thorough,
}

impl Tier {
    pub fn name(self) -> &'static str {
        match self {
            Tier::Quick => "quick",
            Tier::Thorough => "thorough",
        }
    }
    pub fn pick<T>(self, quick: T, thorough: T) -> T {
        match self {
            Tier::Quick => quick,
            Tier::Thorough => thorough,
        }
    }
}

#[derive(Debug, Clone)]
pub struct Args {
    pub property: String,
    pub tier: Tier,
    pub seed: u64,
    pub replay: Option<PathBuf>,
    pub threads: usize,
    /// free-form `--opt key=value` pairs (bounds overrides for experiments)
    pub opts: BTreeMap<String, String>,
}

impl Args {
    pub fn parse() -> Args {
        let mut it = std::env::args().skip(1);
        let property = it.next().unwrap_or_else(|| machinery_error("usage: <engine> <Cxx> [--tier quick|thorough] [--replay file] [--threads n] [--opt k=v]"));
        let mut tier = match std::env::var("VERIF_TIER").ok().as_deref() {
            Some("thorough") => Tier::Thorough,
            _ => Tier::Quick,
        };
        let seed = std::env::var("VERIF_SEED")
            .ok()
            .and_then(|s| s.trim().parse::<i64>().ok())
            .map(|v| v as u64)
            .unwrap_or(0);
        let mut replay = None;
        let mut threads = std::thread::available_parallelism().map(|n| n.get()).unwrap_or(4);
        let mut opts = BTreeMap::new();
        while let Some(a) = it.next() {
            match a.as_str() {
                "--tier" => {
                    tier = match it.next().as_deref() {
                        Some("quick") => Tier::Quick,
                        Some("thorough") => Tier::Thorough,
                        other => machinery_error(&format!("bad --tier {:?}", other)),
                    }
                }
                "--replay" => replay = it.next().map(PathBuf::from),
                "--threads" => {
                    threads = it.next().and_then(|s| s.parse().ok()).unwrap_or(threads)
                }
                "--opt" => {
                    if let Some(kv) = it.next() {
                        if let Some((k, v)) = kv.split_once('=') {
                            opts.insert(k.to_string(), v.to_string());
                        }
                    }
                }
                other => machinery_error(&format!("unknown argument {other}")),
            }
        }
        Args { property, tier, seed, replay, threads, opts }
    }

    pub fn opt_usize(&self, key: &str, default: usize) -> usize {
        self.opts.get(key).and_then(|v| v.parse().ok()).unwrap_or(default)
    }
}

pub fn machinery_error(msg: &str) -> ! {
    eprintln!("MACHINERY-ERROR: {msg}");
    std::process::exit(2)
}

// ---------------------------------------------------------------------------------------
// violations, known findings, evidence
// ---------------------------------------------------------------------------------------

/// One violating case. `signature` identifies the *cause* (used for de-duplication and for
/// matching `known_findings.json`); `replay` is everything needed to re-run the case.
#[derive(Debug, Clone)]
pub struct Violation {
    pub signature: String,
    pub summary: String,
    pub replay: Value,
}

#[derive(Debug, Clone)]
struct KnownFinding {
    signature: String,
    what: String,
}

fn load_known(property: &str) -> Vec<KnownFinding> {
    let path = Path::new(VERIF_ROOT).join("known_findings.json");
    let Ok(text) = std::fs::read_to_string(&path) else { return vec![] };
    let v: Value = match serde_json::from_str(&text) {
        Ok(v) => v,
        Err(e) => machinery_error(&format!("known_findings.json does not parse: {e}")),
    };
    let mut out = vec![];
    if let Some(list) = v.get("open").and_then(|l| l.as_array()) {
        for f in list {
            if f.get("property").and_then(|p| p.as_str()) == Some(property) {
                out.push(KnownFinding {
                    signature: f["signature"].as_str().unwrap_or("").to_string(),
                    what: f["what"].as_str().unwrap_or("").to_string(),
                });
            }
        }
    }
    out
}

pub struct Report {
    pub args: Args,
    pub level: &'static str,
    start: Instant,
    coverage: Map<String, Value>,
    assumptions: Vec<String>,
    violations: BTreeMap<String, (Violation, usize)>,
    samples: Vec<Value>,
}

impl Report {
    pub fn new(args: &Args, level: &'static str) -> Report {
        Report {
            args: args.clone(),
            level,
            start: Instant::now(),
            coverage: Map::new(),
            assumptions: vec![],
            violations: BTreeMap::new(),
            samples: vec![],
        }
    }

    pub fn set(&mut self, key: &str, v: impl Into<Value>) {
        self.coverage.insert(key.to_string(), v.into());
    }
    pub fn add(&mut self, key: &str, n: u64) {
        let cur = self.coverage.get(key).and_then(|v| v.as_u64()).unwrap_or(0);
        self.coverage.insert(key.to_string(), Value::from(cur + n));
    }
    pub fn get_u64(&self, key: &str) -> u64 {
        self.coverage.get(key).and_then(|v| v.as_u64()).unwrap_or(0)
    }
    pub fn get_bool(&self, key: &str) -> bool {
        self.coverage.get(key).and_then(|v| v.as_bool()).unwrap_or(false)
    }
    pub fn assume(&mut self, s: &str) {
        self.assumptions.push(s.to_string());
    }
    pub fn sample(&mut self, v: Value) {
        if self.samples.len() < 12 {
            self.samples.push(v);
        }
    }
    pub fn violation(&mut self, v: Violation) {
        self.violation_n(v, 1);
    }
    /// `n` cases share this signature; `v` is a representative (kept if it is the first).
    pub fn violation_n(&mut self, v: Violation, n: usize) {
        let e = self.violations.entry(v.signature.clone()).or_insert((v, 0));
        e.1 += n;
    }
    pub fn n_violation_kinds(&self) -> usize {
        self.violations.len()
    }

    /// Writes the evidence file, prints verdict lines, returns the exit code.
    pub fn finish(mut self) -> i32 {
        let id = self.args.property.clone();
        let known = load_known(&id);
        let mut unlisted = 0usize;
        let mut listed = 0usize;
        let dir = Path::new(VERIF_ROOT).join("replays").join(&id);
        let _ = std::fs::create_dir_all(&dir);
        let mut vio_summ = vec![];
        for (sig, (v, count)) in &self.violations {
            let k = known.iter().find(|k| &k.signature == sig);
            vio_summ.push(json!({"signature": sig, "cases": count, "summary": v.summary, "known": k.is_some()}));
            if let Some(k) = k {
                listed += 1;
                println!("KNOWN-FINDING: property={} {} [{} case(s) in this run; signature {}]", id, k.what, count, sig);
            } else {
                unlisted += 1;
                let fname = format!("{}-{}.json", self.args.tier.name(), sanitize(sig));
                let path = dir.join(fname);
                let body = json!({
                    "property": id, "signature": sig, "summary": v.summary,
                    "cases_with_this_signature": count, "replay": v.replay,
                });
                if let Err(e) = std::fs::write(&path, serde_json::to_string_pretty(&body).unwrap()) {
                    machinery_error(&format!("cannot write replay file {}: {e}", path.display()));
                }
                println!("VIOLATION property={} replay={}", id, path.display());
                println!("  cause: {}  ({} case(s))", v.summary, count);
            }
        }
        if !self.samples.is_empty() && !self.coverage.contains_key("samples") {
            let s = std::mem::take(&mut self.samples);
            self.coverage.insert("samples".into(), Value::Array(s));
        }
        self.coverage.insert("violation_kinds".into(), Value::Array(vio_summ));
        let total_cases: usize = self.violations.values().map(|v| v.1).sum();
        let ev = json!({
            "property_id": id,
            "tier": self.args.tier.name(),
            "seed": self.args.seed as i64,
            "level": self.level,
            "coverage": Value::Object(self.coverage.clone()),
            "assumptions": self.assumptions,
            "wall_s": (self.start.elapsed().as_secs_f64() * 1000.0).round() / 1000.0,
            "violations": total_cases,
            "known_findings_reported": listed,
            "unlisted_violation_kinds": unlisted,
        });
        if self.args.replay.is_none() {
            let evdir = Path::new(VERIF_ROOT).join("evidence");
            let _ = std::fs::create_dir_all(&evdir);
            let path = evdir.join(format!("{id}.json"));
            if let Err(e) = std::fs::write(&path, serde_json::to_string_pretty(&ev).unwrap() + "\n") {
                machinery_error(&format!("cannot write evidence {}: {e}", path.display()));
            }
        }
        let cov = &self.coverage;
        let brief: Vec<String> = cov
            .iter()
            .filter(|(_, v)| v.is_number() || v.is_boolean())
            .map(|(k, v)| format!("{k}={v}"))
            .collect();
        println!(
            "{} {} tier={} wall={:.1}s {}",
            if unlisted == 0 { "OK" } else { "FAILED" },
            id,
            self.args.tier.name(),
            self.start.elapsed().as_secs_f64(),
            brief.join(" ")
        );
        if unlisted > 0 {
            1
        } else {
            0
        }
    }
}

fn sanitize(s: &str) -> String {
    let mut out: String = s
        .chars()
        .map(|c| if c.is_ascii_alphanumeric() || c == '-' || c == '_' { c } else { '_' })
        .collect();
    out.truncate(80);
    out
}

/// Reads the `replay` member of a replay file written by [`Report::finish`].
pub fn load_replay(path: &Path) -> Value {
    let text = std::fs::read_to_string(path)
        .unwrap_or_else(|e| machinery_error(&format!("cannot read {}: {e}", path.display())));
    let v: Value = serde_json::from_str(&text)
        .unwrap_or_else(|e| machinery_error(&format!("replay file does not parse: {e}")));
    v.get("replay").cloned().unwrap_or(v)
}

/// Per-worker violation collector: keeps the first (shortest-found) case per signature and a
/// count, so that a systematically failing run does not hold millions of replay values.
#[derive(Default)]
pub struct VioBag {
    pub map: BTreeMap<String, (Violation, usize)>,
}

impl VioBag {
    pub fn add(&mut self, sig: &str, make: impl FnOnce() -> Violation) {
        match self.map.get_mut(sig) {
            Some(e) => e.1 += 1,
            None => {
                self.map.insert(sig.to_string(), (make(), 1));
            }
        }
    }
    pub fn has(&self, sig: &str) -> bool {
        self.map.contains_key(sig)
    }
    pub fn drain_into(self, rep: &mut Report) {
        for (_, (v, n)) in self.map {
            rep.violation_n(v, n);
        }
    }
}

// ---------------------------------------------------------------------------------------
// wakers
// ---------------------------------------------------------------------------------------

/// A waker with an identity and a wake counter.
pub struct CountWaker {
    pub id: usize,
    pub wakes: AtomicUsize,
}

impl CountWaker {
    pub fn new(id: usize) -> Arc<CountWaker> {
        Arc::new(CountWaker { id, wakes: AtomicUsize::new(0) })
    }
    pub fn count(&self) -> usize {
        self.wakes.load(Ordering::SeqCst)
    }
    pub fn take(&self) -> usize {
        self.wakes.swap(0, Ordering::SeqCst)
    }
    pub fn waker(self: &Arc<Self>) -> Waker {
        Waker::from(self.clone())
    }
}

impl Wake for CountWaker {
    fn wake(self: Arc<Self>) {
        self.wakes.fetch_add(1, Ordering::SeqCst);
    }
    fn wake_by_ref(self: &Arc<Self>) {
        self.wakes.fetch_add(1, Ordering::SeqCst);
    }
}

/// A waker that appends its id to a shared log when woken (who was woken, in which order).
pub struct LogWaker {
    pub id: usize,
    pub log: Arc<Mutex<Vec<usize>>>,
}

impl LogWaker {
    pub fn waker(id: usize, log: &Arc<Mutex<Vec<usize>>>) -> Waker {
        Waker::from(Arc::new(LogWaker { id, log: log.clone() }))
    }
}

impl Wake for LogWaker {
    fn wake(self: Arc<Self>) {
        self.log.lock().unwrap().push(self.id);
    }
    fn wake_by_ref(self: &Arc<Self>) {
        self.log.lock().unwrap().push(self.id);
    }
}

// ---------------------------------------------------------------------------------------
// panics
// ---------------------------------------------------------------------------------------

/// Silences the default panic printer for panics that are part of an oracle
/// (`catch_unwind` parity checks). The hook stays installed for the whole process.
pub fn silence_panics() {
    if std::env::var_os("VERIF_SHOW_PANICS").is_some() {
        return;
    }
    // panics on the main thread or outside catch_unwind are machinery errors: keep them visible
    std::panic::set_hook(Box::new(|info| {
        let quiet = QUIET_PANICS.with(|q| q.get());
        // panics that a harness raises on purpose on threads it does not own (e.g. inside a task on
        // an arbiter thread) carry this marker
        let expected = info.payload().downcast_ref::<&str>().map_or(false, |s| s.contains("(expected-by-harness)"))
            || info.payload().downcast_ref::<String>().map_or(false, |s| s.contains("(expected-by-harness)"));
        if !quiet && !expected && !ALL_QUIET.load(Ordering::SeqCst) {
            eprintln!("MACHINERY-PANIC: {info}");
        }
    }));
}

/// Runs an engine's entry point; a panic that escapes it is a machinery error (exit 2), never
/// an exit status outside the interface.
pub fn guarded_main(f: impl FnOnce() -> i32) -> ! {
    let code = match std::panic::catch_unwind(std::panic::AssertUnwindSafe(f)) {
        Ok(c) => c,
        Err(p) => {
            eprintln!("MACHINERY-ERROR: the engine panicked: {}; no verdict", panic_message(&*p));
            2
        }
    };
    std::process::exit(code)
}

/// While set, no panic is reported on stderr (scenarios that kill threads of the system under test
/// on purpose; the collateral panics happen on threads the harness does not own).
pub static ALL_QUIET: std::sync::atomic::AtomicBool = std::sync::atomic::AtomicBool::new(false);

thread_local! {
    static QUIET_PANICS: std::cell::Cell<bool> = const { std::cell::Cell::new(false) };
}

/// `catch_unwind` for panics that are part of an oracle: nothing is printed for them.
pub fn quiet_catch<R>(f: impl FnOnce() -> R) -> std::thread::Result<R> {
    let prev = QUIET_PANICS.with(|q| q.replace(true));
    let r = std::panic::catch_unwind(std::panic::AssertUnwindSafe(f));
    QUIET_PANICS.with(|q| q.set(prev));
    r
}

pub fn panic_message(p: &(dyn std::any::Any + Send)) -> String {
    if let Some(s) = p.downcast_ref::<&str>() {
        s.to_string()
    } else if let Some(s) = p.downcast_ref::<String>() {
        s.clone()
    } else {
        "<non-string panic>".into()
    }
}

// ---------------------------------------------------------------------------------------
// parallel map over a list of work items (order of results = order of items)
// ---------------------------------------------------------------------------------------

pub fn par_map<T: Send + Sync, R: Send>(
    threads: usize,
    items: &[T],
    f: impl Fn(usize, &T) -> R + Send + Sync,
) -> Vec<R> {
    let next = AtomicUsize::new(0);
    let results: Mutex<Vec<Option<R>>> = Mutex::new((0..items.len()).map(|_| None).collect());
    std::thread::scope(|s| {
        for _ in 0..threads.max(1).min(items.len().max(1)) {
            s.spawn(|| loop {
                let i = next.fetch_add(1, Ordering::SeqCst);
                if i >= items.len() {
                    break;
                }
                let r = f(i, &items[i]);
                results.lock().unwrap()[i] = Some(r);
            });
        }
    });
    results.into_inner().unwrap().into_iter().map(|r| r.expect("worker died")).collect()
}

// ---------------------------------------------------------------------------------------
// enumeration helpers
// ---------------------------------------------------------------------------------------

/// All sequences of length exactly `len` over `0..base`, in lexicographic order, through a
/// callback; `buf` is reused.
pub fn for_each_seq(base: usize, len: usize, mut f: impl FnMut(&[usize])) {
    let mut buf = vec![0usize; len];
    loop {
        f(&buf);
        let mut i = len;
        loop {
            if i == 0 {
                return;
            }
            i -= 1;
            buf[i] += 1;
            if buf[i] < base {
                break;
            }
            buf[i] = 0;
        }
    }
}

/// All compositions of `n` (ordered lists of positive parts summing to n); 2^(n-1) of them
/// for n>=1, one (empty) for n=0.
pub fn compositions(n: usize) -> Vec<Vec<usize>> {
    if n == 0 {
        return vec![vec![]];
    }
    let mut out = vec![];
    for mask in 0u32..(1u32 << (n - 1)) {
        let mut parts = vec![];
        let mut cur = 1;
        for b in 0..n - 1 {
            if mask & (1 << b) != 0 {
                parts.push(cur);
                cur = 1;
            } else {
                cur += 1;
            }
        }
        parts.push(cur);
        out.push(parts);
    }
    out
}

/// Small deterministic hasher for counting distinct outcomes.
pub fn fnv64(bytes: &[u8]) -> u64 {
    let mut h: u64 = 0xcbf29ce484222325;
    for b in bytes {
        h ^= *b as u64;
        h = h.wrapping_mul(0x100000001b3);
    }
    h
}
